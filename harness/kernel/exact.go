package kernel

import (
	"math/big"
	"math/bits"
)

// P is a point with exact integer coordinates (fixed point units, lattice units or pixel indices).
type P struct{ X, Y int64 }

func abs64(a int64) uint64 {
	if a < 0 {
		return uint64(-a)
	}
	return uint64(a)
}

// CmpMul returns the sign of a*b - c*d, exactly (128 bit products).
func CmpMul(a, b, c, d int64) int {
	s1 := sgn(a) * sgn(b)
	s2 := sgn(c) * sgn(d)
	if s1 != s2 {
		if s1 < s2 {
			return -1
		}
		return 1
	}
	if s1 == 0 {
		return 0
	}
	h1, l1 := bits.Mul64(abs64(a), abs64(b))
	h2, l2 := bits.Mul64(abs64(c), abs64(d))
	c0 := 0
	switch {
	case h1 != h2:
		if h1 < h2 {
			c0 = -1
		} else {
			c0 = 1
		}
	case l1 != l2:
		if l1 < l2 {
			c0 = -1
		} else {
			c0 = 1
		}
	}
	return c0 * s1
}

func sgn(a int64) int {
	switch {
	case a < 0:
		return -1
	case a > 0:
		return 1
	}
	return 0
}

// Orient is the orientation of c relative to the directed line a->b: +1 left (ccw), -1 right, 0 collinear.
func Orient(a, b, c P) int {
	return CmpMul(b.X-a.X, c.Y-a.Y, b.Y-a.Y, c.X-a.X)
}

func min64(a, b int64) int64 {
	if a < b {
		return a
	}
	return b
}
func max64(a, b int64) int64 {
	if a > b {
		return a
	}
	return b
}

// OnSeg: p lies on the closed segment ab.
func OnSeg(a, b, p P) bool {
	return Orient(a, b, p) == 0 && min64(a.X, b.X) <= p.X && p.X <= max64(a.X, b.X) && min64(a.Y, b.Y) <= p.Y && p.Y <= max64(a.Y, b.Y)
}

// SegsIntersect: the closed segments ab and cd have at least one point in common.
func SegsIntersect(a, b, c, d P) bool {
	o1, o2, o3, o4 := Orient(a, b, c), Orient(a, b, d), Orient(c, d, a), Orient(c, d, b)
	if o1*o2 < 0 && o3*o4 < 0 {
		return true
	}
	if o1 == 0 && OnSeg(a, b, c) {
		return true
	}
	if o2 == 0 && OnSeg(a, b, d) {
		return true
	}
	if o3 == 0 && OnSeg(c, d, a) {
		return true
	}
	if o4 == 0 && OnSeg(c, d, b) {
		return true
	}
	return false
}

// SegsCross: the segments cross properly: their interiors meet in exactly one point and they are not collinear.
// Touching (an endpoint on the other segment), overlap and shared endpoints are not crossings.
func SegsCross(a, b, c, d P) bool {
	o1, o2, o3, o4 := Orient(a, b, c), Orient(a, b, d), Orient(c, d, a), Orient(c, d, b)
	return o1*o2 < 0 && o3*o4 < 0
}

// dotSign is the sign of (p-s).(q-s)
func dotSign(s, p, q P) int {
	return CmpMul(p.X-s.X, q.X-s.X, -(p.Y - s.Y), q.Y-s.Y)
}

// RingSimple: ring (not closed: last != first) has >= 3 vertices, no repeated vertices, no two edges that
// touch or cross except neighbours in their common vertex, and non-zero area.
func RingSimple(r []P) bool {
	n := len(r)
	if n < 3 {
		return false
	}
	for i := 0; i < n; i++ {
		a, b := r[i], r[(i+1)%n]
		if a == b {
			return false
		}
		for j := i + 1; j < n; j++ {
			c, d := r[j], r[(j+1)%n]
			adjacent := j == i+1 || (i == 0 && j == n-1)
			if adjacent {
				// share one endpoint; must not fold back onto each other
				var s, p, q P
				if j == i+1 {
					s, p, q = b, a, d
				} else {
					s, p, q = a, b, c
				}
				if Orient(p, s, q) == 0 && dotSign(s, p, q) > 0 {
					return false
				}
				continue
			}
			if SegsIntersect(a, b, c, d) {
				return false
			}
		}
	}
	return Area2Sign(r) != 0
}

// Area2 is twice the signed area (positive = counter clockwise), exact.
func Area2(r []P) *big.Int {
	s := new(big.Int)
	var t, u big.Int
	for i := range r {
		j := (i + 1) % len(r)
		t.Mul(big.NewInt(r[i].X), big.NewInt(r[j].Y))
		u.Mul(big.NewInt(r[j].X), big.NewInt(r[i].Y))
		s.Add(s, &t)
		s.Sub(s, &u)
	}
	return s
}

func Area2Sign(r []P) int { return Area2(r).Sign() }

// PointInRing: 1 strictly inside, 0 on the boundary, -1 outside (even-odd / crossing number, exact).
func PointInRing(p P, ring []P) int {
	in := false
	n := len(ring)
	for i := 0; i < n; i++ {
		a, b := ring[i], ring[(i+1)%n]
		if OnSeg(a, b, p) {
			return 0
		}
		if (a.Y > p.Y) != (b.Y > p.Y) {
			// is the crossing of the edge with the horizontal through p strictly right of p?
			// x = a.X + (p.Y-a.Y)*(b.X-a.X)/(b.Y-a.Y) > p.X
			// <=> (b.X-a.X)*(p.Y-a.Y) - (p.X-a.X)*(b.Y-a.Y)  has the sign of (b.Y-a.Y)
			c := CmpMul(b.X-a.X, p.Y-a.Y, p.X-a.X, b.Y-a.Y)
			if b.Y-a.Y < 0 {
				c = -c
			}
			if c > 0 {
				in = !in
			}
		}
	}
	if in {
		return 1
	}
	return -1
}

// RingsDisjoint: no edge of a touches or crosses an edge of b.
func RingsDisjoint(a, b []P) bool {
	for i := range a {
		for j := range b {
			if SegsIntersect(a[i], a[(i+1)%len(a)], b[j], b[(j+1)%len(b)]) {
				return false
			}
		}
	}
	return true
}

// ValidPolygon: every ring simple, every hole strictly inside the shell, holes mutually disjoint and not nested.
func ValidPolygon(rings [][]P) bool {
	if len(rings) == 0 {
		return false
	}
	for _, r := range rings {
		if !RingSimple(r) {
			return false
		}
	}
	shell := rings[0]
	for i, h := range rings[1:] {
		if !RingsDisjoint(h, shell) {
			return false
		}
		if PointInRing(h[0], shell) != 1 {
			return false
		}
		for _, o := range rings[1 : 1+i] {
			if !RingsDisjoint(h, o) || PointInRing(h[0], o) >= 0 || PointInRing(o[0], h) >= 0 {
				return false
			}
		}
	}
	return true
}

// Reversed returns a reversed copy.
func Reversed[T any](r []T) []T {
	o := make([]T, len(r))
	for i := range r {
		o[len(r)-1-i] = r[i]
	}
	return o
}
