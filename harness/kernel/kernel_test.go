package kernel

import (
	"fmt"
	"math/rand"
	"testing"
)

// Self test of the trusted base: the two independent "segment meets half open box" deciders and the two
// orderings must agree, on small lattices (ties everywhere) and on huge coordinates (128 bit paths).
func TestMeetsAgainstWitnessEnumeration(t *testing.T) {
	r := rand.New(rand.NewSource(1))
	for it := 0; it < 300000; it++ {
		var scale, off int64 = 1, 0
		switch it % 3 {
		case 1:
			scale, off = 7_400_000_00, -200375083427892000
		case 2:
			scale, off = 2150400000000, -2854019200000000
		}
		rnd := func() int64 { return off + scale*int64(r.Intn(13)) + int64(it%2)*int64(r.Intn(3)-1) }
		a, b := P{rnd(), rnd()}, P{rnd(), rnd()}
		i, j := int64(r.Intn(3)), int64(r.Intn(3))
		lo := P{off + scale*4*i, off + scale*4*j}
		hi := P{lo.X + 4*scale, lo.Y + 4*scale}
		if Meets(a, b, lo, hi) != MeetsSlow(a, b, lo, hi) {
			t.Fatalf("disagree: %v %v box %v %v fast=%v", a, b, lo, hi, Meets(a, b, lo, hi))
		}
	}
}

func TestRouteAgainstSlow(t *testing.T) {
	r := rand.New(rand.NewSource(2))
	g := &Grid{MinX: -30, MinY: 50, Span: 4 * 64, SpanY: 4 * 64}
	l := Leveled{g, 6, 6} // 64 pixels of 4 units
	for it := 0; it < 100000; it++ {
		hot := PixSet{}
		for k := 0; k < 1+r.Intn(10); k++ {
			hot.Add(P{int64(r.Intn(5)), int64(r.Intn(5))})
		}
		a := P{g.MinX + int64(r.Intn(21)), g.MinY + int64(r.Intn(21))}
		b := P{g.MinX + int64(r.Intn(21)), g.MinY + int64(r.Intn(21))}
		f, s := l.Route(a, b, hot), l.RouteSlow(a, b, hot)
		if fmt.Sprint(f) != fmt.Sprint(s) {
			t.Fatalf("route disagree %v->%v hot %v: fast %v slow %v", a, b, hot.Sorted(), f, s)
		}
	}
}

func TestExactBasics(t *testing.T) {
	sq := []P{{0, 0}, {4, 0}, {4, 4}, {0, 4}}
	if !RingSimple(sq) || Area2Sign(sq) != 1 || PointInRing(P{2, 2}, sq) != 1 || PointInRing(P{4, 2}, sq) != 0 || PointInRing(P{5, 2}, sq) != -1 {
		t.Fatal("square")
	}
	bow := []P{{0, 0}, {4, 4}, {4, 0}, {0, 4}}
	if RingSimple(bow) {
		t.Fatal("bowtie is not simple")
	}
	spike := []P{{0, 0}, {4, 0}, {2, 0}, {2, 3}}
	if RingSimple(spike) {
		t.Fatal("spike folds back")
	}
	if !SegsCross(P{0, 0}, P{4, 4}, P{0, 4}, P{4, 0}) || SegsCross(P{0, 0}, P{4, 4}, P{2, 2}, P{4, 0}) || SegsCross(P{0, 0}, P{4, 0}, P{2, 0}, P{6, 0}) {
		t.Fatal("cross")
	}
	big1 := int64(4e17)
	if CmpMul(big1, big1, big1, big1-1) != 1 || CmpMul(-big1, big1, big1, -big1) != 0 || CmpMul(-big1, big1, 1, 1) != -1 {
		t.Fatal("cmpmul")
	}
	chains := [][]P{{{0, 0}, {1, 0}, {2, 0}, {2, 2}, {0, 2}}}
	if !Explained(chains, P{0, 0}, P{2, 0}) || !Explained(chains, P{2, 0}, P{0, 0}) || Explained(chains, P{0, 0}, P{2, 2}) || !Explained(chains, P{0, 2}, P{0, 0}) || Explained(chains, P{1, 0}, P{2, 2}) {
		t.Fatal("explained")
	}
}
