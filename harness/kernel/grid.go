package kernel

import (
	"fmt"
	"math"
	"strings"

	"github.com/pdok/texel/tms20"
)

// PixelsPerCell is the vector tile internal resolution: 4096 grid units per 256 pixel tile.
const PixelsPerCell = 16

// ToFixed is the tool's reading of a float ordinate: truncation of o*1e10 (statement level definition, re-implemented).
func ToFixed(o float64) int64 { return int64(o * 1e10) }

// FromFixed gives the float the tool hands out for a fixed point ordinate.
func FromFixed(f int64) float64 {
	if f == 0 {
		return 0
	}
	return float64(f) / 1e10
}

// Grid is the harness' own model of the pixel grids of a quadtree tile matrix set.
type Grid struct {
	TMS       tms20.TileMatrixSet
	Name      string
	MinX      int64 // fixed point, x,y order
	MinY      int64
	Span      int64 // fixed point span of the extent (x)
	SpanY     int64
	LevelDiff uint // quadtree level of tile matrix 0's pixels: log2(tileWidth) + log2(16)
	// extent as derived from the document numbers alone (float, x,y order)
	DocMinX, DocMinY, DocSpan float64
}

// LevelOf gives the quadtree level of the pixels of tile matrix id.
func (g *Grid) LevelOf(id int) uint { return uint(id) + g.LevelDiff }

// Res is the fixed point pixel size at the deepest level (integer division, like the tool).
func (g *Grid) Res(deepest uint) int64 { return g.Span / (int64(1) << deepest) }

// PixelSpan is the fixed point pixel size at level, for an index built at level deepest.
func (g *Grid) PixelSpan(level, deepest uint) int64 { return g.Res(deepest) << (deepest - level) }

// IsRound: the extent divides evenly into pixels at this level.
func (g *Grid) IsRound(deepest uint) bool {
	return g.Span%(int64(1)<<deepest) == 0 && g.SpanY == g.Span
}

func floorDiv(a, b int64) int64 {
	q := a / b
	if a%b != 0 && (a < 0) != (b < 0) {
		q--
	}
	return q
}

// Pixel gives the pixel index of a fixed point location at level (index built at deepest).
func (g *Grid) Pixel(p P, level, deepest uint) P {
	s := g.PixelSpan(level, deepest)
	return P{floorDiv(p.X-g.MinX, s), floorDiv(p.Y-g.MinY, s)}
}

// Centre gives the fixed point centre of a pixel.
func (g *Grid) Centre(ix P, level, deepest uint) P {
	s := g.PixelSpan(level, deepest)
	return P{g.MinX + ix.X*s + s/2, g.MinY + ix.Y*s + s/2}
}

// PixelBox gives min (inclusive) and max (exclusive) of a pixel.
func (g *Grid) PixelBox(ix P, level, deepest uint) (lo, hi P) {
	s := g.PixelSpan(level, deepest)
	return P{g.MinX + ix.X*s, g.MinY + ix.Y*s}, P{g.MinX + (ix.X+1)*s, g.MinY + (ix.Y+1)*s}
}

// Inside: inside the half-open extent as the tool can address it at the deepest level:
// [min, min + res*2^deepest). On round grids that is the extent itself.
func (g *Grid) Inside(p P, deepest uint) bool {
	w := g.Res(deepest) << deepest
	return p.X >= g.MinX && p.Y >= g.MinY && p.X < g.MinX+w && p.Y < g.MinY+w
}

// InsideExtent: inside the half-open extent [min, min+span).
func (g *Grid) InsideExtent(p P) bool {
	return p.X >= g.MinX && p.Y >= g.MinY && p.X < g.MinX+g.Span && p.Y < g.MinY+g.SpanY
}

// OutputPixel maps a returned float coordinate back to a pixel index (centres are mid pixel, so floor is robust).
func (g *Grid) OutputPixel(c [2]float64, level, deepest uint) P {
	return g.Pixel(P{ToFixed(c[0]), ToFixed(c[1])}, level, deepest)
}

// DocAxesSwapped tells whether the document's ordered axes are lat/lon (y first).
func DocAxesSwapped(orderedAxes []string) bool {
	if len(orderedAxes) == 0 {
		return false
	}
	a := strings.ToLower(orderedAxes[0])
	return a == "lat" || a == "y" || a == "n" || strings.HasPrefix(a, "n(") || strings.HasPrefix(a, "lat")
}

// DocExtent derives the x,y extent of tile matrix id from the document numbers alone.
func DocExtent(tms *tms20.TileMatrixSet, id int) (minX, minY, spanX, spanY float64, err error) {
	tm, ok := tms.TileMatrices[id]
	if !ok {
		return 0, 0, 0, 0, fmt.Errorf("no tile matrix %d", id)
	}
	if tm.PointOfOrigin == nil {
		return 0, 0, 0, 0, fmt.Errorf("no point of origin")
	}
	ox, oy := tm.PointOfOrigin[0], tm.PointOfOrigin[1]
	if DocAxesSwapped(tms.OrderedAxes) {
		ox, oy = oy, ox
	}
	spanX = float64(tm.MatrixWidth) * float64(tm.TileWidth) * tm.CellSize
	spanY = float64(tm.MatrixHeight) * float64(tm.TileHeight) * tm.CellSize
	minX = ox
	if tm.CornerOfOrigin == tms20.BottomLeft {
		minY = oy
	} else {
		minY = oy - spanY
	}
	return minX, minY, spanX, spanY, nil
}

// NewGrid builds the model. The fixed point extent is the tool's reading of tms.MatrixBoundingBox(0)
// (bit identical ties need the bit identical extent); the document derived extent is kept alongside and
// must agree within 1e-9 relative to the span.
func NewGrid(name string, tms tms20.TileMatrixSet) (*Grid, error) {
	bl, tr, err := tms.MatrixBoundingBox(0)
	if err != nil {
		return nil, err
	}
	root := tms.TileMatrices[0]
	g := &Grid{TMS: tms, Name: name}
	g.MinX, g.MinY = ToFixed(bl[0]), ToFixed(bl[1])
	g.Span = ToFixed(tr[0]) - g.MinX
	g.SpanY = ToFixed(tr[1]) - g.MinY
	g.LevelDiff = uint(math.Log2(float64(root.TileWidth))) + 4
	g.DocMinX, g.DocMinY, g.DocSpan, _, err = DocExtent(&tms, 0)
	if err != nil {
		return nil, err
	}
	tol := 1e-9*math.Abs(g.DocSpan) + 1e-9
	if math.Abs(g.DocMinX-bl[0]) > tol || math.Abs(g.DocMinY-bl[1]) > tol || math.Abs(g.DocSpan-(tr[0]-bl[0])) > tol {
		return nil, fmt.Errorf("grid %s: document extent (%v,%v,+%v) disagrees with MatrixBoundingBox %v %v", name, g.DocMinX, g.DocMinY, g.DocSpan, bl, tr)
	}
	return g, nil
}

// MaxID returns the largest tile matrix id of the set.
func (g *Grid) MaxID() int {
	m := 0
	for id := range g.TMS.TileMatrices {
		if id > m {
			m = id
		}
	}
	return m
}
