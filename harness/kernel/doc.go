// Package kernel holds the exact geometry, grid model and reference models that the oracles are built on.
package kernel
