package kernel

import (
	"math/big"
	"sort"
)

// Meets decides whether the closed segment a-b has a point in the half open box [lo.X,hi.X) x [lo.Y,hi.Y).
//
// Method (separating axes with a symbolic shrink): the segment meets the half open box iff it meets the closed box
// [lo, hi-eps] for all sufficiently small eps > 0. Segment and closed box are disjoint iff an axis among
// x, y and the segment's normal separates them. The first two are interval tests; for the third the four corners
// (with the symbolic eps) must not all be strictly on one side of the supporting line. Signs of expressions
// s0 + eps*s1 are decided lexicographically. Only orientation tests with 128 bit products are needed; this is
// deliberately a different algorithm from parametric clipping.
func Meets(a, b, lo, hi P) bool {
	if max64(a.X, b.X) < lo.X || min64(a.X, b.X) >= hi.X || max64(a.Y, b.Y) < lo.Y || min64(a.Y, b.Y) >= hi.Y {
		return false
	}
	dx, dy := b.X-a.X, b.Y-a.Y
	if dx == 0 && dy == 0 {
		return true // a point, and it passed the interval tests
	}
	lex := func(s0 int, s1 int64) int {
		if s0 != 0 {
			return s0
		}
		return sgn(s1)
	}
	// o(c) = dx*(c.Y-a.Y) - dy*(c.X-a.X); derivative for c.X -> c.X-eps is +dy, for c.Y -> c.Y-eps is -dx
	o := func(c P) int { return CmpMul(dx, c.Y-a.Y, dy, c.X-a.X) }
	s1 := lex(o(P{lo.X, lo.Y}), 0)
	s2 := lex(o(P{hi.X, lo.Y}), dy)
	s3 := lex(o(P{hi.X, hi.Y}), dy-dx)
	s4 := lex(o(P{lo.X, hi.Y}), -dx)
	if s1 > 0 && s2 > 0 && s3 > 0 && s4 > 0 {
		return false
	}
	if s1 < 0 && s2 < 0 && s3 < 0 && s4 < 0 {
		return false
	}
	return true
}

// MeetsSlow decides the same by witness enumeration with exact rationals: membership of the moving point in the
// half open box can only change at the parameters 0, 1 and where the supporting line meets the four border lines;
// every such parameter in [0,1] and every midpoint between consecutive ones is tested.
func MeetsSlow(a, b, lo, hi P) bool {
	dx, dy := b.X-a.X, b.Y-a.Y
	ts := []*big.Rat{big.NewRat(0, 1), big.NewRat(1, 1)}
	add := func(num, den int64) {
		if den == 0 {
			return
		}
		t := new(big.Rat).SetFrac(big.NewInt(num), big.NewInt(den))
		if t.Sign() >= 0 && t.Cmp(big.NewRat(1, 1)) <= 0 {
			ts = append(ts, t)
		}
	}
	add(lo.X-a.X, dx)
	add(hi.X-a.X, dx)
	add(lo.Y-a.Y, dy)
	add(hi.Y-a.Y, dy)
	sort.Slice(ts, func(i, j int) bool { return ts[i].Cmp(ts[j]) < 0 })
	in := func(t *big.Rat) bool {
		x := new(big.Rat).Add(new(big.Rat).SetInt64(a.X), new(big.Rat).Mul(t, new(big.Rat).SetInt64(dx)))
		y := new(big.Rat).Add(new(big.Rat).SetInt64(a.Y), new(big.Rat).Mul(t, new(big.Rat).SetInt64(dy)))
		return x.Cmp(new(big.Rat).SetInt64(lo.X)) >= 0 && x.Cmp(new(big.Rat).SetInt64(hi.X)) < 0 &&
			y.Cmp(new(big.Rat).SetInt64(lo.Y)) >= 0 && y.Cmp(new(big.Rat).SetInt64(hi.Y)) < 0
	}
	half := big.NewRat(1, 2)
	for i, t := range ts {
		if in(t) {
			return true
		}
		if i+1 < len(ts) {
			m := new(big.Rat).Add(t, ts[i+1])
			m.Mul(m, half)
			if in(m) {
				return true
			}
		}
	}
	return false
}

// PixSet is a set of occupied (hot) pixels.
type PixSet map[P]struct{}

func (s PixSet) Add(p P)      { s[p] = struct{}{} }
func (s PixSet) Has(p P) bool { _, ok := s[p]; return ok }
func (s PixSet) Sorted() []P {
	o := make([]P, 0, len(s))
	for p := range s {
		o = append(o, p)
	}
	sort.Slice(o, func(i, j int) bool {
		if o[i].X != o[j].X {
			return o[i].X < o[j].X
		}
		return o[i].Y < o[j].Y
	})
	return o
}

// Leveled binds a grid to one pixel level (of an index built at level Deepest).
type Leveled struct {
	G              *Grid
	Level, Deepest uint
}

func (l Leveled) Pixel(p P) P           { return l.G.Pixel(p, l.Level, l.Deepest) }
func (l Leveled) Centre(ix P) P         { return l.G.Centre(ix, l.Level, l.Deepest) }
func (l Leveled) Box(ix P) (P, P)       { return l.G.PixelBox(ix, l.Level, l.Deepest) }
func (l Leveled) Span() int64           { return l.G.PixelSpan(l.Level, l.Deepest) }
func (l Leveled) OutPix(c [2]float64) P { return l.G.OutputPixel(c, l.Level, l.Deepest) }

// Route returns the hot pixels met by the closed segment a-b, in order of travel.
// Pixels are disjoint and the segment is monotone in x and in y, so the pixels it meets form a chain that is
// monotone in both indices; ordering by sign(dx)*i + sign(dy)*j is the order of travel.
func (l Leveled) Route(a, b P, hot PixSet) []P {
	var out []P
	// candidate pixels: only those in the index range of the segment's bounding box
	pa, pb := l.Pixel(a), l.Pixel(b)
	i0, i1 := min64(pa.X, pb.X), max64(pa.X, pb.X)
	j0, j1 := min64(pa.Y, pb.Y), max64(pa.Y, pb.Y)
	test := func(p P) {
		if p.X < i0 || p.X > i1 || p.Y < j0 || p.Y > j1 {
			return
		}
		lo, hi := l.Box(p)
		if Meets(a, b, lo, hi) {
			out = append(out, p)
		}
	}
	if w, h := i1-i0+1, j1-j0+1; w <= 1<<20 && h <= 1<<20 && w*h < int64(len(hot)) { // (bounded first: the product can overflow on long segments)
		for i := i0; i <= i1; i++ {
			for j := j0; j <= j1; j++ {
				if hot.Has(P{i, j}) {
					test(P{i, j})
				}
			}
		}
	} else {
		for p := range hot {
			test(p)
		}
	}
	sx, sy := int64(sgn(b.X-a.X)), int64(sgn(b.Y-a.Y))
	sort.Slice(out, func(i, j int) bool {
		ki, kj := sx*out[i].X+sy*out[i].Y, sx*out[j].X+sy*out[j].Y
		if ki != kj {
			return ki < kj
		}
		if out[i].X != out[j].X { // cannot happen for a monotone chain; keep the order total anyway
			return out[i].X < out[j].X
		}
		return out[i].Y < out[j].Y
	})
	return out
}

// RouteSlow is Route with MeetsSlow and ordering by exact first-witness parameter.
func (l Leveled) RouteSlow(a, b P, hot PixSet) []P {
	type ent struct {
		p P
		k *big.Rat
	}
	var es []ent
	dx, dy := b.X-a.X, b.Y-a.Y
	for _, p := range hot.Sorted() {
		lo, hi := l.Box(p)
		if !MeetsSlow(a, b, lo, hi) {
			continue
		}
		// order key: the infimum of parameters t for which the point is inside the closed box
		// = max over axes of the entry parameter, clipped to >= 0; ties are broken by the product order of travel.
		k := big.NewRat(0, 1)
		ent1 := func(a0, d, l0, h0 int64) {
			if d == 0 {
				return
			}
			var t *big.Rat
			if d > 0 {
				t = new(big.Rat).SetFrac(big.NewInt(l0-a0), big.NewInt(d))
			} else {
				t = new(big.Rat).SetFrac(big.NewInt(h0-a0), big.NewInt(d))
			}
			if t.Cmp(k) > 0 {
				k = t
			}
		}
		ent1(a.X, dx, lo.X, hi.X)
		ent1(a.Y, dy, lo.Y, hi.Y)
		es = append(es, ent{p, k})
	}
	sx, sy := int64(sgn(dx)), int64(sgn(dy))
	sort.SliceStable(es, func(i, j int) bool {
		if c := es[i].k.Cmp(es[j].k); c != 0 {
			return c < 0
		}
		return sx*es[i].p.X+sy*es[i].p.Y < sx*es[j].p.X+sy*es[j].p.Y
	})
	out := make([]P, len(es))
	for i := range es {
		out[i] = es[i].p
	}
	return out
}

// RoutedRing routes every edge of the ring (not closed) and concatenates, merging equal consecutive pixels and
// dropping the closing duplicate.
func (l Leveled) RoutedRing(ring []P, hot PixSet) []P {
	var out []P
	n := len(ring)
	for i := 0; i < n; i++ {
		for _, p := range l.Route(ring[i], ring[(i+1)%n], hot) {
			if len(out) == 0 || out[len(out)-1] != p {
				out = append(out, p)
			}
		}
	}
	if len(out) > 1 && out[0] == out[len(out)-1] {
		out = out[:len(out)-1]
	}
	return out
}

// Normalise returns the rings with the shell counter clockwise and the holes clockwise (exact area sign);
// rings with zero area are left as they are.
func Normalise(rings [][]P) [][]P {
	out := make([][]P, len(rings))
	for i, r := range rings {
		s := Area2Sign(r)
		if (i == 0 && s < 0) || (i > 0 && s > 0) {
			out[i] = Reversed(r)
		} else {
			out[i] = r
		}
	}
	return out
}

// Hot returns the pixels of all vertices.
func (l Leveled) Hot(rings [][]P) PixSet {
	h := PixSet{}
	for _, r := range rings {
		for _, p := range r {
			h.Add(l.Pixel(p))
		}
	}
	return h
}

// RoutedBoundary routes all rings of the (normalised) polygon with hot = pixels of all its vertices.
func (l Leveled) RoutedBoundary(rings [][]P) (chains [][]P, hot PixSet) {
	hot = l.Hot(rings)
	for _, r := range Normalise(rings) {
		chains = append(chains, l.RoutedRing(r, hot))
	}
	return chains, hot
}

// MaxVisits is the largest number of times one chain passes one pixel.
func MaxVisits(chains [][]P) int {
	m := 0
	for _, c := range chains {
		v := map[P]int{}
		for _, p := range c {
			v[p]++
			if v[p] > m {
				m = v[p]
			}
		}
	}
	return m
}

// MaxVisitsAll is the largest number of times all chains together pass one pixel.
func MaxVisitsAll(chains [][]P) int {
	m := 0
	v := map[P]int{}
	for _, c := range chains {
		for _, p := range c {
			v[p]++
			if v[p] > m {
				m = v[p]
			}
		}
	}
	return m
}

// Explained: the edge a-b (pixel indices) equals, in either direction, a straight run chain[i..j] of consecutive
// routed edges (all collinear and monotone). A one pixel chain explains nothing; a == b is not an edge.
func Explained(chains [][]P, a, b P) bool {
	if a == b {
		return false
	}
	for _, c := range chains {
		n := len(c)
		if n < 2 {
			continue
		}
		for i := 0; i < n; i++ {
			if c[i] != a {
				continue
			}
			for dir := -1; dir <= 1; dir += 2 {
				prev := a
				for s := 1; s <= n; s++ {
					cur := c[((i+dir*s)%n+n)%n]
					if cur == prev {
						break
					}
					if s > 1 {
						if Orient(a, prev, cur) != 0 {
							break
						}
						// monotone: continues in the same direction
						if dotSign(prev, a, cur) >= 0 {
							break
						}
					}
					if cur == b {
						return true
					}
					if cur == a {
						break
					}
					prev = cur
				}
			}
		}
	}
	return false
}

// TieInfo classifies the exact ties of a polygon with the pixel borders at this level.
type TieInfo struct {
	VertexOnBorder    bool // a vertex lies on a pixel border line
	VertexOnCorner    bool // a vertex lies on a pixel corner
	EdgeThroughCorner bool // an edge passes exactly through a pixel corner in its interior (sampled within its bbox)
	EdgeAlongBorder   bool // an edge runs along a border line
}

func (t TieInfo) Any() bool {
	return t.VertexOnBorder || t.VertexOnCorner || t.EdgeThroughCorner || t.EdgeAlongBorder
}

func mod(a, b int64) int64 { return a - floorDiv(a, b)*b }

// Ties computes TieInfo; edges through corners are searched over the lattice of corners inside the edge's bbox,
// bounded to maxCorners per edge.
func (l Leveled) Ties(rings [][]P) TieInfo {
	var t TieInfo
	s := l.Span()
	for _, r := range rings {
		n := len(r)
		for i, p := range r {
			bx, by := mod(p.X-l.G.MinX, s) == 0, mod(p.Y-l.G.MinY, s) == 0
			if bx || by {
				t.VertexOnBorder = true
			}
			if bx && by {
				t.VertexOnCorner = true
			}
			q := r[(i+1)%n]
			if p == q {
				continue
			}
			if (p.X == q.X && bx) || (p.Y == q.Y && by) {
				t.EdgeAlongBorder = true
			}
			if t.EdgeThroughCorner {
				continue
			}
			pi, qi := l.Pixel(p), l.Pixel(q)
			i0, i1 := min64(pi.X, qi.X), max64(pi.X, qi.X)+1
			j0, j1 := min64(pi.Y, qi.Y), max64(pi.Y, qi.Y)+1
			if i1-i0 > 400 || j1-j0 > 400 || (i1-i0+1)*(j1-j0+1) > 400 {
				continue
			}
			for ci := i0; ci <= i1 && !t.EdgeThroughCorner; ci++ {
				for cj := j0; cj <= j1; cj++ {
					c := P{l.G.MinX + ci*s, l.G.MinY + cj*s}
					if c != p && c != q && OnSeg(p, q, c) {
						t.EdgeThroughCorner = true
						break
					}
				}
			}
		}
	}
	return t
}
