// Package report runs a generated check (rapid or enumeration) against an oracle, counts what was generated,
// handles replay files and known findings, and writes the evidence fragment that the driver merges.
package report

import (
	"encoding/binary"
	"encoding/json"
	"fmt"
	"hash/fnv"
	"os"
	"path/filepath"
	"sort"
	"strconv"
	"strings"
	"sync"
	"testing"
	"time"

	"pgregory.net/rapid"
)

// Outcome is what an oracle says about one case.
type Outcome struct {
	Fail       string   // empty: the property held on this case
	Tags       []string // failure signature (root cause markers), matched against known findings
	NonTrivial bool     // by the check's stated rule
	Labels     []string // generator classification, goes into the histogram
	Key        string   // distinctness key; empty = the JSON of the case
	OutOfScope bool     // generated but outside the property's domain (counted separately, not an evaluation)
}

func (o *Outcome) Label(format string, a ...any) {
	o.Labels = append(o.Labels, fmt.Sprintf(format, a...))
}
func (o *Outcome) Failf(tags []string, format string, a ...any) {
	if o.Fail == "" {
		o.Fail = fmt.Sprintf(format, a...)
	}
	o.Tags = append(o.Tags, tags...)
}

// Finding is one entry of known_findings.json.
type Finding struct {
	ID         string            `json:"id"`
	Status     string            `json:"status"` // open | fixed
	Properties []string          `json:"properties"`
	TagsAll    []string          `json:"tags_all,omitempty"`
	Witness    map[string]string `json:"witness,omitempty"`
	Commit     string            `json:"commit,omitempty"`
	What       string            `json:"what"`
	Record     []string          `json:"record"`
}

type findingsFile struct {
	Findings []Finding `json:"findings"`
}

// ReplayFile is the format of replays/<ID>/*.json and of the failure files written by a run.
type ReplayFile struct {
	Property string          `json:"property"`
	Check    string          `json:"check"`
	Expect   string          `json:"expect"` // "pass" or "known:<finding id>"
	Note     string          `json:"note,omitempty"`
	Failure  string          `json:"failure,omitempty"`
	Tags     []string        `json:"tags,omitempty"`
	Seed     uint64          `json:"seed,omitempty"`
	Case     json.RawMessage `json:"case"`
}

// Fragment is what one sub-check of one shard reports to the driver.
type Fragment struct {
	Property    string         `json:"property"`
	Check       string         `json:"check"`
	Shard       int            `json:"shard"`
	Evaluations int            `json:"evaluations"`
	NonTrivial  int            `json:"nontrivial"`
	Distinct    int            `json:"distinct_nontrivial"`
	OutOfScope  int            `json:"out_of_scope"`
	Replayed    int            `json:"replayed"`
	Excluded    map[string]int `json:"excluded_known"`
	Labels      map[string]int `json:"labels"`
	Samples     []any          `json:"samples"`
	Rule        string         `json:"rule"`
	Exhaustive  bool           `json:"exhaustive"`
	Assumptions []string       `json:"assumptions"`
	Extra       map[string]any `json:"extra,omitempty"`
	Violations  int            `json:"violations"`
	Known       []string       `json:"known_finding_lines"`
	WallS       float64        `json:"wall_s"`
	HashFile    string         `json:"hash_file"`
}

// Spec describes a sub-check.
type Spec struct {
	Property    string // C01
	Check       string // C01 or C02Seg ...
	Rule        string
	Assumptions []string
	Exhaustive  bool
}

type recorder struct {
	mu       sync.Mutex
	spec     Spec
	frag     Fragment
	hashes   map[uint64]struct{}
	findings []Finding
	start    time.Time
	failed   bool
}

// Root is the /verif directory.
func Root() string {
	if r := os.Getenv("VERIF_ROOT"); r != "" {
		return r
	}
	d, _ := os.Getwd()
	for i := 0; i < 6; i++ {
		if _, err := os.Stat(filepath.Join(d, "properties.jsonl")); err == nil {
			return d
		}
		d = filepath.Dir(d)
	}
	return "/verif"
}

// OutDir is where fragments and failure files go.
func OutDir() string {
	if d := os.Getenv("VERIF_OUT"); d != "" {
		_ = os.MkdirAll(d, 0o755)
		return d
	}
	d := filepath.Join(os.TempDir(), "verif-out")
	_ = os.MkdirAll(d, 0o755)
	return d
}

func Shard() int {
	n, _ := strconv.Atoi(os.Getenv("VERIF_SHARD"))
	return n
}

// Tier is "quick" or "thorough".
func Tier() string {
	if os.Getenv("VERIF_TIER") == "thorough" {
		return "thorough"
	}
	return "quick"
}

// Scale picks a size by tier.
func Scale(quick, thorough int) int {
	if Tier() == "thorough" {
		return thorough
	}
	return quick
}

func loadFindings(property string) []Finding {
	var ff findingsFile
	b, err := os.ReadFile(filepath.Join(Root(), "known_findings.json"))
	if err != nil {
		return nil
	}
	if err := json.Unmarshal(b, &ff); err != nil {
		panic(fmt.Errorf("known_findings.json: %w", err))
	}
	var out []Finding
	for _, f := range ff.Findings {
		for _, p := range f.Properties {
			if p == property {
				out = append(out, f)
			}
		}
	}
	return out
}

func newRecorder(spec Spec) *recorder {
	r := &recorder{spec: spec, hashes: map[uint64]struct{}{}, start: time.Now()}
	r.frag = Fragment{Property: spec.Property, Check: spec.Check, Shard: Shard(), Excluded: map[string]int{}, Labels: map[string]int{},
		Rule: spec.Rule, Exhaustive: spec.Exhaustive, Assumptions: spec.Assumptions, Extra: map[string]any{}}
	r.findings = loadFindings(spec.Property)
	return r
}

func hasAll(have, want []string) bool {
	for _, w := range want {
		ok := false
		for _, h := range have {
			if h == w {
				ok = true
			}
		}
		if !ok {
			return false
		}
	}
	return true
}

var (
	openAll map[string][]Finding
	openMu  sync.Mutex
)

// MatchesOpenFinding: the failure carries the signature of an open known finding of the property (for fuzz targets, which do not
// go through a recorder).
func MatchesOpenFinding(property string, o Outcome) bool {
	openMu.Lock()
	defer openMu.Unlock()
	if openAll == nil {
		openAll = map[string][]Finding{}
	}
	ff, ok := openAll[property]
	if !ok {
		ff = loadFindings(property)
		openAll[property] = ff
	}
	for _, f := range ff {
		if f.Status == "open" && len(f.TagsAll) > 0 && hasAll(o.Tags, f.TagsAll) {
			return true
		}
	}
	return false
}

// matchOpen returns the open finding whose signature the failure carries.
func (r *recorder) matchOpen(o Outcome) *Finding {
	for i := range r.findings {
		f := &r.findings[i]
		if f.Status == "open" && len(f.TagsAll) > 0 && hasAll(o.Tags, f.TagsAll) {
			return f
		}
	}
	return nil
}

var sampleAt = map[int]bool{1: true, 2: true, 3: true, 30: true, 300: true, 3000: true, 30000: true}

// record counts one case. It returns true when the case is a violation that is not a listed known finding.
func (r *recorder) record(c any, o Outcome) (violation bool) {
	r.mu.Lock()
	defer r.mu.Unlock()
	if o.OutOfScope {
		r.frag.OutOfScope++
		for _, l := range o.Labels {
			r.frag.Labels["out-of-scope: "+l]++
		}
		return false
	}
	r.frag.Evaluations++
	for _, l := range o.Labels {
		r.frag.Labels[l]++
	}
	if o.NonTrivial {
		r.frag.NonTrivial++
		key := o.Key
		var js []byte
		if key == "" {
			js, _ = json.Marshal(c)
			key = string(js)
		}
		h := fnv.New64a()
		_, _ = h.Write([]byte(key))
		hv := h.Sum64()
		if _, seen := r.hashes[hv]; !seen {
			r.hashes[hv] = struct{}{}
			if sampleAt[len(r.hashes)] {
				if js == nil {
					js, _ = json.Marshal(c)
				}
				if len(js) > 20000 { // (huge cases: the evidence keeps the beginning, the size and a digest)
					hd := fnv.New64a()
					_, _ = hd.Write(js)
					r.frag.Samples = append(r.frag.Samples, map[string]any{"case_truncated": string(js[:1500]) + " ...", "case_bytes": len(js), "case_fnv64a": fmt.Sprintf("%016x", hd.Sum64()), "labels": o.Labels})
				} else {
					r.frag.Samples = append(r.frag.Samples, map[string]any{"case": json.RawMessage(js), "labels": o.Labels})
				}
			}
		}
	}
	if o.Fail == "" {
		return false
	}
	if f := r.matchOpen(o); f != nil {
		r.frag.Excluded[f.ID]++
		return false
	}
	return true
}

func (r *recorder) writeFailure(c any, o Outcome, name string) string {
	js, _ := json.Marshal(c)
	rf := ReplayFile{Property: r.spec.Property, Check: r.spec.Check, Expect: "pass", Failure: o.Fail, Tags: o.Tags, Case: js}
	b, _ := json.MarshalIndent(rf, "", " ")
	p := filepath.Join(OutDir(), name)
	_ = os.WriteFile(p, b, 0o644)
	return p
}

func (r *recorder) failName() string {
	return fmt.Sprintf("FAIL-%s-%s-shard%d.json", r.spec.Property, r.spec.Check, Shard())
}

func (r *recorder) flush() {
	r.mu.Lock()
	defer r.mu.Unlock()
	r.frag.Distinct = len(r.hashes)
	r.frag.WallS = time.Since(r.start).Seconds()
	if len(r.frag.Samples) == 0 {
		r.frag.Samples = []any{}
	}
	hf := filepath.Join(OutDir(), fmt.Sprintf("hashes-%s-%s-shard%d.bin", r.spec.Property, r.spec.Check, Shard()))
	hs := make([]uint64, 0, len(r.hashes))
	for h := range r.hashes {
		hs = append(hs, h)
	}
	sort.Slice(hs, func(i, j int) bool { return hs[i] < hs[j] })
	buf := make([]byte, 8*len(hs))
	for i, h := range hs {
		binary.LittleEndian.PutUint64(buf[8*i:], h)
	}
	_ = os.WriteFile(hf, buf, 0o644)
	r.frag.HashFile = hf
	b, _ := json.MarshalIndent(r.frag, "", " ")
	_ = os.WriteFile(filepath.Join(OutDir(), fmt.Sprintf("frag-%s-%s-shard%d.json", r.spec.Property, r.spec.Check, Shard())), b, 0o644)
}

// replayAll runs the committed replay files of this sub-check through the plain oracle.
// It returns false if one of them is a violation.
func replayAll[C any](t *testing.T, r *recorder, oracle func(C) Outcome) bool {
	only := os.Getenv("VERIF_REPLAY")
	var files []string
	if os.Getenv("VERIF_NO_REPLAY") != "" && only == "" {
		return true // sensitivity experiments: the generated search alone
	}
	if only != "" {
		files = []string{only}
	} else {
		files, _ = filepath.Glob(filepath.Join(Root(), "replays", r.spec.Property, "*.json"))
		sort.Strings(files)
	}
	ok := true
	for _, f := range files {
		b, err := os.ReadFile(f)
		if err != nil {
			t.Fatalf("replay file %s: %v", f, err)
		}
		var rf ReplayFile
		if err := json.Unmarshal(b, &rf); err != nil {
			t.Fatalf("replay file %s: %v", f, err)
		}
		if rf.Check != r.spec.Check {
			continue
		}
		var c C
		if err := json.Unmarshal(rf.Case, &c); err != nil {
			t.Fatalf("replay file %s: case: %v", f, err)
		}
		o := oracle(c)
		r.frag.Replayed++
		switch {
		case o.Fail == "":
			if only != "" {
				fmt.Printf("REPLAY property=%s file=%s: holds\n", r.spec.Property, f)
			}
		case strings.HasPrefix(rf.Expect, "known:") && r.matchOpen(o) != nil && r.matchOpen(o).ID == strings.TrimPrefix(rf.Expect, "known:"):
			fd := r.matchOpen(o)
			what := fd.What
			for _, rec := range fd.Record {
				if pre := "KNOWN-FINDING: property=" + r.spec.Property + " "; strings.HasPrefix(rec, pre) {
					what = strings.TrimPrefix(rec, pre)
				}
			}
			fail := o.Fail
			if len(fail) > 300 {
				fail = fail[:300] + "..."
			}
			line := fmt.Sprintf("KNOWN-FINDING: property=%s %s [witness replays/%s/%s still fails: %s]", r.spec.Property, what, r.spec.Property, filepath.Base(f), fail)
			fmt.Println(line)
			r.frag.Known = append(r.frag.Known, line)
		default:
			ok = false
			r.frag.Violations++
			fmt.Printf("REPLAY-FAILED property=%s file=%s: %s\n", r.spec.Property, f, o.Fail)
			fmt.Printf("VIOLATION property=%s replay=%s\n", r.spec.Property, f)
		}
	}
	return ok
}

// ReplayOnly tells whether this invocation only replays one file.
func ReplayOnly() bool { return os.Getenv("VERIF_REPLAY") != "" }

// Run drives a rapid property: generator + oracle.
func Run[C any](t *testing.T, spec Spec, gen func(*rapid.T) C, oracle func(C) Outcome) {
	r := newRecorder(spec)
	defer r.flush()
	if !replayAll(t, r, oracle) {
		r.failed = true
		t.Fail()
		return
	}
	if ReplayOnly() {
		return
	}
	rapid.Check(t, func(rt *rapid.T) {
		c := gen(rt)
		o := oracle(c)
		if r.record(c, o) {
			p := r.writeFailure(c, o, r.failName())
			r.mu.Lock()
			r.frag.Violations = 1
			r.mu.Unlock()
			rt.Fatalf("property %s violated: %s (case in %s)", spec.Property, o.Fail, p)
		}
	})
}

// RunEnum drives a complete enumeration through the same oracle/recording.
func RunEnum[C any](t *testing.T, spec Spec, enum func(yield func(C) bool), oracle func(C) Outcome) {
	r := newRecorder(spec)
	defer r.flush()
	if !replayAll(t, r, oracle) {
		t.Fail()
		return
	}
	if ReplayOnly() {
		return
	}
	enum(func(c C) bool {
		o := oracle(c)
		if r.record(c, o) {
			p := r.writeFailure(c, o, r.failName())
			r.frag.Violations = 1
			t.Errorf("property %s violated: %s (case in %s)", spec.Property, o.Fail, p)
			return false
		}
		return true
	})
}

// Extra lets a check add measured numbers to its fragment (e.g. timing tables). Safe only from the test goroutine
// after Run returned; for use inside oracles use labels instead.
func Note(spec Spec, key string, v any) {
	p := filepath.Join(OutDir(), fmt.Sprintf("note-%s-%s-shard%d-%s.json", spec.Property, spec.Check, Shard(), key))
	b, _ := json.Marshal(v)
	_ = os.WriteFile(p, b, 0o644)
}
