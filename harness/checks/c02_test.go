package checks

import (
	"fmt"
	"reflect"
	"testing"

	"github.com/go-spatial/geom"
	"github.com/pdok/texel/pointindex"
	"pgregory.net/rapid"

	"verifharness/gen"
	"verifharness/kernel"
	"verifharness/report"
)

// ---------------------------------------------------------------------------------------------------------------
// (a) segment level: PointIndex.SnapClosestPoints against the routing reference

type SegCase struct {
	Grid gen.GridSpec  `json:"grid"`
	Deep int           `json:"deep,omitempty"` // deepest tile matrix id (built-in grids; synthetic grids use their last one)
	Hot  [][2]int64    `json:"hot"`            // pixel indices at the deepest level
	Seg  [2][2]float64 `json:"seg"`
	Q    int64         `json:"q"`
	Cls  string        `json:"cls,omitempty"`
	NWin int           `json:"nwin,omitempty"` // how many of Hot lie in the window (the rest is anywhere in the grid)
}

var specC02Seg = report.Spec{Property: "C02", Check: "C02Seg",
	Rule: "segment level: synthetic dyadic grid of depth 4-9 levels (non-zero origins, tile widths, both corners of origin) or a built-in grid (NetherlandsRDNewQuad, WebMercatorQuad, UPSArcticWGS84Quad, EuropeanETRS89_LAEAQuad) with a drawn deepest id up to pixel level 32, a window of 4x4..6x6 pixels anchored at the origin/far corner/on the root split/on a deeper split/anywhere, " +
		"1-10 occupied pixels in the window plus 0-3 anywhere, segment endpoints on the pixel/4 (ties), pixel/3 or pixel/8 lattice of the window (60% in occupied pixels like real polygon edges, 40% free); " +
		"subject PointIndex.SnapClosestPoints at every level 1..deepest; oracle: exact centre sequence (set and order) of the routing reference (separating-axis test with symbolic shrink of the half open pixel, order by monotone chain), plus exact float equality of the centres. " +
		"Non-trivial: at the deepest level the segment has an exact tie with the pixel grid (endpoint on a border/corner, through a corner, along a border) or meets >= 2 occupied pixels. Distinct by case content.",
	Assumptions: []string{"the reference decider Meets() is cross-validated against exact-rational witness enumeration in the harness self test (kernel_test.go) and on a sample of cases at run time"}}

func (c SegCase) deepID() int {
	if c.Grid.Kind == "builtin" {
		return c.Deep
	}
	return c.Grid.NTM - 1
}

func genC02Seg(t *rapid.T) SegCase {
	c := SegCase{Grid: gen.AnyGridWide(t)}
	g := c.Grid.MustBuild()
	if c.Grid.Kind == "builtin" {
		c.Deep = rapid.IntRange(0, min(g.MaxID(), maxAddressableID(g))).Draw(t, "deepestID")
	}
	deepest := g.LevelOf(c.deepID())
	size := int64(1) << deepest
	w := rapid.Int64Range(4, 6).Draw(t, "window")
	an, cls := gen.Anchor(t, size, w)
	c.Cls = cls
	c.Q = rapid.SampledFrom([]int64{4, 4, 4, 3, 8}).Draw(t, "q")
	nh := rapid.IntRange(1, 10).Draw(t, "nHot")
	c.NWin = nh
	for k := 0; k < nh; k++ {
		c.Hot = append(c.Hot, [2]int64{an.X + rapid.Int64Range(0, w-1).Draw(t, "hi"), an.Y + rapid.Int64Range(0, w-1).Draw(t, "hj")})
	}
	for k := rapid.IntRange(0, 3).Draw(t, "nFar"); k > 0; k-- {
		c.Hot = append(c.Hot, [2]int64{rapid.Int64Range(0, size-1).Draw(t, "fi"), rapid.Int64Range(0, size-1).Draw(t, "fj")})
	}
	lev := kernel.Leveled{G: g, Level: deepest, Deepest: deepest}
	pl := gen.Placement{L: lev, Q: c.Q, Anchor: an}
	end := func(label string) [2]float64 {
		var u P
		if rapid.IntRange(0, 9).Draw(t, label+"InHot") < 6 {
			h := c.Hot[rapid.IntRange(0, nh-1).Draw(t, label+"hot")]
			// a lattice point of that pixel (its left/bottom borders included, right/top excluded)
			u = P{X: (h[0]-an.X)*c.Q + rapid.Int64Range(0, c.Q-1).Draw(t, label+"u"), Y: (h[1]-an.Y)*c.Q + rapid.Int64Range(0, c.Q-1).Draw(t, label+"v")}
		} else {
			u = P{X: rapid.Int64Range(0, w*c.Q-1).Draw(t, label+"x"), Y: rapid.Int64Range(0, w*c.Q-1).Draw(t, label+"y")}
		}
		f := pl.Fixed(u)
		x, _ := gen.ExactFloat(f.X)
		y, _ := gen.ExactFloat(f.Y)
		return [2]float64{x, y}
	}
	c.Seg = [2][2]float64{end("a"), end("b")}
	return c
}

// compareRouting compares what SnapClosestPoints returned for one segment with the routing reference at every level.
// hotDeep are the occupied pixels at the deepest level. It fills in labels/non-triviality for the deepest level.
func compareRouting(o *report.Outcome, g *kernel.Grid, deepest uint, hotDeep [][2]int64, seg [2][2]float64, got map[uint][][2]float64, what string) {
	a := P{X: kernel.ToFixed(seg[0][0]), Y: kernel.ToFixed(seg[0][1])}
	b := P{X: kernel.ToFixed(seg[1][0]), Y: kernel.ToFixed(seg[1][1])}
	for l := uint(1); l <= deepest; l++ {
		lev := kernel.Leveled{G: g, Level: l, Deepest: deepest}
		hot := kernel.PixSet{}
		for _, h := range hotDeep {
			hot.Add(P{X: h[0] >> (deepest - l), Y: h[1] >> (deepest - l)})
		}
		want := lev.Route(a, b, hot)
		if l == deepest {
			ties := lev.Ties([][]P{{a, b}})
			if ties.Any() {
				o.Label("tie")
			}
			if len(want) >= 2 {
				o.Label("meets>=2")
			}
			if len(want) == 0 {
				o.Label("meets none")
			}
			if ties.Any() || len(want) >= 2 {
				o.NonTrivial = true
			}
			if len(hotDeep)%7 == 0 && len(hot) <= 40 { // sampled cross validation of the reference itself
				if slow := lev.RouteSlow(a, b, hot); fmt.Sprint(slow) != fmt.Sprint(want) {
					panic(fmt.Sprintf("harness defect: references disagree: %v vs %v", want, slow))
				}
			}
		}
		gl := got[l]
		gp := make([]P, len(gl))
		for i, v := range gl {
			gp[i] = lev.OutPix(v)
		}
		if fmt.Sprint(gp) != fmt.Sprint(want) {
			o.Failf([]string{"routing"}, "%slevel %d: segment %v-%v (fixed %v-%v) with occupied pixels %v: got centres of pixels %v, the segment meets %v (in order of travel)", what, l, seg[0], seg[1], a, b, hot.Sorted(), gp, want)
			return
		}
		for i, v := range gl {
			ce := lev.Centre(want[i])
			if v[0] != kernel.FromFixed(ce.X) || v[1] != kernel.FromFixed(ce.Y) {
				o.Failf([]string{"centre"}, "%slevel %d: returned %v is not the centre %v/%v of pixel %v", what, l, v, kernel.FromFixed(ce.X), kernel.FromFixed(ce.Y), want[i])
				return
			}
		}
	}
}

func allLevels(deepest uint) map[uint]any {
	levels := map[uint]any{}
	for l := uint(1); l <= deepest; l++ {
		levels[l] = struct{}{}
	}
	return levels
}

func oracleC02Seg(c SegCase) (o report.Outcome) {
	g := c.Grid.MustBuild()
	deepestID := c.deepID()
	deepest := g.LevelOf(deepestID)
	a := P{X: kernel.ToFixed(c.Seg[0][0]), Y: kernel.ToFixed(c.Seg[0][1])}
	b := P{X: kernel.ToFixed(c.Seg[1][0]), Y: kernel.ToFixed(c.Seg[1][1])}
	if !g.Inside(a, deepest) || !g.Inside(b, deepest) {
		o.OutOfScope = true
		o.Label("endpoint outside the grid")
		return o
	}
	var got map[uint][][2]float64
	var pan any
	func() {
		defer func() { pan = recover() }()
		ix, err := pointindex.FromTileMatrixSet(g.TMS, deepestID)
		if err != nil {
			panic(err)
		}
		for _, h := range c.Hot {
			if err := ix.InsertCoord(int(h[0]), int(h[1])); err != nil {
				panic(err)
			}
		}
		got = ix.SnapClosestPoints(geom.Line{c.Seg[0], c.Seg[1]}, allLevels(deepest), 0)
	}()
	if pan != nil {
		o.Failf([]string{"panic"}, "SnapClosestPoints panicked: %v", pan)
		return o
	}
	o.Label("grid=%s", gridClass(c.Grid))
	o.Label("anchor=%s", c.Cls)
	compareRouting(&o, g, deepest, c.Hot, c.Seg, got, "")
	return o
}

func TestC02Seg(t *testing.T) { report.Run(t, specC02Seg, genC02Seg, oracleC02Seg) }

// ---------------------------------------------------------------------------------------------------------------
// (a') a history on ONE index: rounds of "insert some pixels, then snap a segment"; every snap must see all pixels so far

type HistRound struct {
	Hot [][2]int64    `json:"hot"`
	Seg [2][2]float64 `json:"seg"`
}

type HistCase struct {
	Grid   gen.GridSpec `json:"grid"`
	Deep   int          `json:"deep,omitempty"`
	Rounds []HistRound  `json:"rounds"`
}

var specC02Hist = report.Spec{Property: "C02", Check: "C02Hist",
	Rule: "stateful: ONE PointIndex, 2-5 rounds of (insert 0-4 occupied pixels of a small window, then SnapClosestPoints of a segment of that window, all levels); after every round the result must be the routing reference for ALL pixels inserted so far, and what earlier rounds returned must be unchanged at the end. Grids as C02Seg. " +
		"Non-trivial: a later round inserts a pixel that the segment of that round meets (a stale view of the index would miss it) or a tie. Distinct by case content.",
	Assumptions: specC02Seg.Assumptions}

func genC02Hist(t *rapid.T) HistCase {
	seg := genC02Seg(t)
	c := HistCase{Grid: seg.Grid, Deep: seg.Deep}
	g := c.Grid.MustBuild()
	deepest := g.LevelOf(seg.deepID())
	// the window of the first round is reused: draw further rounds from the same pixels
	minX, minY, maxX, maxY := seg.Hot[0][0], seg.Hot[0][1], seg.Hot[0][0], seg.Hot[0][1]
	nIn := min(len(seg.Hot), max(seg.NWin, 1))
	for _, h := range seg.Hot[:nIn] {
		minX, minY, maxX, maxY = min(minX, h[0]), min(minY, h[1]), max(maxX, h[0]), max(maxY, h[1])
	}
	lev := kernel.Leveled{G: g, Level: deepest, Deepest: deepest}
	pt := func(label string) [2]float64 {
		lo, _ := lev.Box(P{X: rapid.Int64Range(minX, maxX).Draw(t, label+"i"), Y: rapid.Int64Range(minY, maxY).Draw(t, label+"j")})
		s := lev.Span()
		x, _ := gen.ExactFloat(lo.X + rapid.Int64Range(0, 3).Draw(t, label+"u")*s/4)
		y, _ := gen.ExactFloat(lo.Y + rapid.Int64Range(0, 3).Draw(t, label+"v")*s/4)
		return [2]float64{x, y}
	}
	c.Rounds = append(c.Rounds, HistRound{Hot: seg.Hot[:max(nIn/2, 1)], Seg: seg.Seg})
	for r := rapid.IntRange(1, 4).Draw(t, "moreRounds"); r > 0; r-- {
		var hot [][2]int64
		for k := rapid.IntRange(0, 4).Draw(t, "nHot"); k > 0; k-- {
			hot = append(hot, [2]int64{rapid.Int64Range(minX, maxX).Draw(t, "hi"), rapid.Int64Range(minY, maxY).Draw(t, "hj")})
		}
		sg := [2][2]float64{pt("a"), pt("b")}
		if rapid.Bool().Draw(t, "sameSegment") {
			sg = c.Rounds[len(c.Rounds)-1].Seg
		}
		c.Rounds = append(c.Rounds, HistRound{Hot: hot, Seg: sg})
	}
	return c
}

func oracleC02Hist(c HistCase) (o report.Outcome) {
	g := c.Grid.MustBuild()
	deepestID := c.Deep
	if c.Grid.Kind != "builtin" {
		deepestID = c.Grid.NTM - 1
	}
	deepest := g.LevelOf(deepestID)
	for _, r := range c.Rounds {
		for _, e := range r.Seg {
			if !g.Inside(P{X: kernel.ToFixed(e[0]), Y: kernel.ToFixed(e[1])}, deepest) {
				o.OutOfScope = true
				return o
			}
		}
	}
	var pan any
	func() {
		defer func() { pan = recover() }()
		ix, err := pointindex.FromTileMatrixSet(g.TMS, deepestID)
		if err != nil {
			panic(err)
		}
		var all [][2]int64
		var kept, keptCopy []map[uint][][2]float64
		defer func() {
			// what earlier rounds returned belongs to the caller: later calls on the index must not change it
			for i := range kept {
				if o.Fail == "" && !reflect.DeepEqual(kept[i], keptCopy[i]) {
					o.Failf([]string{"aliasing"}, "the points returned in round %d changed while later segments were snapped on the same index: were %v, are now %v", i+1, keptCopy[i], kept[i])
				}
			}
		}()
		for ri, r := range c.Rounds {
			for _, h := range r.Hot {
				if err := ix.InsertCoord(int(h[0]), int(h[1])); err != nil {
					panic(err)
				}
			}
			all = append(all, r.Hot...)
			got := ix.SnapClosestPoints(geom.Line{r.Seg[0], r.Seg[1]}, allLevels(deepest), 0)
			cp := make(map[uint][][2]float64, len(got))
			for l, pts := range got {
				cp[l] = append([][2]float64{}, pts...)
			}
			kept, keptCopy = append(kept, got), append(keptCopy, cp)
			var sub report.Outcome
			compareRouting(&sub, g, deepest, all, r.Seg, got, fmt.Sprintf("round %d of %d on one index: ", ri+1, len(c.Rounds)))
			if sub.Fail != "" {
				o.Fail, o.Tags = sub.Fail, sub.Tags
				return
			}
			if ri > 0 && sub.NonTrivial && len(r.Hot) > 0 {
				o.NonTrivial = true
			}
		}
	}()
	if pan != nil && o.Fail == "" {
		o.Failf([]string{"panic"}, "PointIndex panicked: %v", pan)
	}
	o.Label("rounds=%d", len(c.Rounds))
	return o
}

func TestC02Hist(t *testing.T) { report.Run(t, specC02Hist, genC02Hist, oracleC02Hist) }

// ---------------------------------------------------------------------------------------------------------------
// (a'') long segments: through or just past a pixel corner, from far away (large differences, up to the whole grid)

type LongCase struct {
	Grid    gen.GridSpec `json:"grid"`
	Deep    int          `json:"deep,omitempty"`
	Corner  [2]int64     `json:"corner"` // pixel corner (index of the pixel whose lower left corner it is) at the deepest level
	Dir     [2]int64     `json:"dir"`    // direction in quarter pixels
	A       int64        `json:"a"`      // the segment runs from corner - a*dir to corner + b*dir
	B       int64        `json:"b"`
	Perturb [2]int64     `json:"perturb"` // quarter pixel offset of the first end point (0,0: exactly through the corner)
	Extra   [][2]int64   `json:"extra"`   // further occupied pixels
}

var specC02Long = report.Spec{Property: "C02", Check: "C02Long",
	Rule: "long segments: a pixel corner C of the deepest level, a direction (dx,dy) in quarter pixels, end points C - a*(dx,dy) and C + b*(dx,dy) with a, b up to thousands (clamped to the grid: on the built-in grids at coarse levels these are edges of hundreds to thousands of km, fixed point differences above 2^53), the first end point optionally moved by a quarter pixel (just past the corner); " +
		"occupied: a subset of the four pixels around C plus pixels under sampled points of the segment plus random ones. Same oracle as C02Seg (exact at every magnitude: 128 bit products). Non-trivial: tie or >= 2 pixels met.",
	Assumptions: specC02Seg.Assumptions}

func genC02Long(t *rapid.T) LongCase {
	c := LongCase{Grid: gen.AnyGridWide(t)}
	g := c.Grid.MustBuild()
	if c.Grid.Kind == "builtin" {
		c.Deep = rapid.IntRange(0, min(g.MaxID(), maxAddressableID(g), 12)).Draw(t, "deepestID")
	}
	deepest := g.LevelOf(c.deepOf())
	size := int64(1) << deepest
	c.Corner = [2]int64{rapid.Int64Range(1, size-1).Draw(t, "cx"), rapid.Int64Range(1, size-1).Draw(t, "cy")}
	for c.Dir == [2]int64{0, 0} {
		c.Dir = [2]int64{rapid.Int64Range(-9, 9).Draw(t, "dx"), rapid.Int64Range(-9, 9).Draw(t, "dy")}
	}
	c.A = rapid.Int64Range(1, 4*size).Draw(t, "a")
	c.B = rapid.Int64Range(0, 4*size).Draw(t, "b")
	if rapid.IntRange(0, 2).Draw(t, "perturb") == 0 {
		c.Perturb = [2]int64{rapid.Int64Range(-1, 1).Draw(t, "px"), rapid.Int64Range(-1, 1).Draw(t, "py")}
	}
	for k := rapid.IntRange(0, 4).Draw(t, "around"); k > 0; k-- {
		c.Extra = append(c.Extra, [2]int64{c.Corner[0] - rapid.Int64Range(0, 1).Draw(t, "ox"), c.Corner[1] - rapid.Int64Range(0, 1).Draw(t, "oy")})
	}
	for k := rapid.IntRange(0, 3).Draw(t, "random"); k > 0; k-- {
		c.Extra = append(c.Extra, [2]int64{rapid.Int64Range(0, size-1).Draw(t, "ri"), rapid.Int64Range(0, size-1).Draw(t, "rj")})
	}
	c.Extra = append(c.Extra, [2]int64{-1, int64(rapid.IntRange(1, 6).Draw(t, "alongSamples"))}) // marker: sample pixels along the segment
	return c
}

func (c LongCase) deepOf() int {
	if c.Grid.Kind == "builtin" {
		return c.Deep
	}
	return c.Grid.NTM - 1
}

func oracleC02Long(c LongCase) (o report.Outcome) {
	g := c.Grid.MustBuild()
	deepestID := c.deepOf()
	deepest := g.LevelOf(deepestID)
	lev := kernel.Leveled{G: g, Level: deepest, Deepest: deepest}
	size := int64(1) << deepest
	// clamp a and b so that both end points stay inside the grid (quarter pixel units relative to the grid's corner)
	cq := [2]int64{c.Corner[0] * 4, c.Corner[1] * 4}
	fit := func(m int64, sign int64) int64 {
		for _, ax := range []int{0, 1} {
			d := sign * c.Dir[ax]
			if d > 0 {
				m = min(m, (4*size-2-cq[ax])/d)
			} else if d < 0 {
				m = min(m, (cq[ax]-1)/(-d))
			}
		}
		return max(m, 0)
	}
	a, b := fit(c.A, -1), fit(c.B, 1)
	s := lev.Span()
	toFloat := func(qx, qy int64) [2]float64 {
		x, _ := gen.ExactFloat(g.MinX + (qx/4)*s + (qx%4)*s/4)
		y, _ := gen.ExactFloat(g.MinY + (qy/4)*s + (qy%4)*s/4)
		return [2]float64{x, y}
	}
	p0 := [2]int64{cq[0] - a*c.Dir[0] + c.Perturb[0], cq[1] - a*c.Dir[1] + c.Perturb[1]}
	p1 := [2]int64{cq[0] + b*c.Dir[0], cq[1] + b*c.Dir[1]}
	for _, p := range [][2]int64{p0, p1} {
		if p[0] < 0 || p[1] < 0 || p[0] >= 4*size || p[1] >= 4*size {
			o.OutOfScope = true
			return o
		}
	}
	seg := [2][2]float64{toFloat(p0[0], p0[1]), toFloat(p1[0], p1[1])}
	fa := P{X: kernel.ToFixed(seg[0][0]), Y: kernel.ToFixed(seg[0][1])}
	fb := P{X: kernel.ToFixed(seg[1][0]), Y: kernel.ToFixed(seg[1][1])}
	if !g.Inside(fa, deepest) || !g.Inside(fb, deepest) {
		o.OutOfScope = true
		return o
	}
	var hot [][2]int64
	for _, e := range c.Extra {
		if e[0] == -1 { // pixels under evenly spaced points of the segment
			for k := int64(1); k <= e[1]; k++ {
				px := lev.Pixel(P{X: fa.X + (fb.X-fa.X)/(e[1]+1)*k, Y: fa.Y + (fb.Y-fa.Y)/(e[1]+1)*k})
				if px.X >= 0 && px.Y >= 0 && px.X < size && px.Y < size {
					hot = append(hot, [2]int64{px.X, px.Y})
				}
			}
			continue
		}
		if e[0] >= 0 && e[1] >= 0 && e[0] < size && e[1] < size {
			hot = append(hot, e)
		}
	}
	if len(hot) == 0 {
		hot = append(hot, [2]int64{min(c.Corner[0], size-1), min(c.Corner[1], size-1)})
	}
	var got map[uint][][2]float64
	var pan any
	func() {
		defer func() { pan = recover() }()
		ix, err := pointindex.FromTileMatrixSet(g.TMS, deepestID)
		if err != nil {
			panic(err)
		}
		for _, h := range hot {
			if err := ix.InsertCoord(int(h[0]), int(h[1])); err != nil {
				panic(err)
			}
		}
		got = ix.SnapClosestPoints(geom.Line{seg[0], seg[1]}, allLevels(deepest), 0)
	}()
	if pan != nil {
		o.Failf([]string{"panic"}, "SnapClosestPoints panicked: %v", pan)
		return o
	}
	o.Label("grid=%s", gridClass(c.Grid))
	if d := max(abs(fb.X-fa.X), abs(fb.Y-fa.Y)); d > 1<<53 {
		o.Label("difference above 2^53 fixed point units")
	}
	compareRouting(&o, g, deepest, hot, seg, got, "")
	return o
}

func TestC02Long(t *testing.T) { report.Run(t, specC02Long, genC02Long, oracleC02Long) }

// ---------------------------------------------------------------------------------------------------------------
// (b) polygon level: non collapsing polygons come back as exactly the routed boundary

var specC02Poly = report.Spec{Property: "C02", Check: "C02Poly",
	Rule: "polygon level: valid polygons (as C01, scaled by 1-6 so that most do not collapse; 1 case in 150 a smooth closed curve of 520-1500 vertices about two pixels apart) on synthetic grids, NetherlandsRDNewQuad and WebMercatorQuad; a requested tile matrix qualifies when the routed boundary visits every pixel centre at most once over all rings and every routed ring has >= 3 centres; " +
		"oracle: the result for that tile matrix is exactly one polygon whose rings are the routed rings (cyclic, direction sensitive: shell ccw, holes cw; reversed under ReverseWindingOrder; holes in any order). " +
		"Non-trivial: the routed ring has more vertices than the input ring (a vertex was inserted) or the polygon has an exact tie with the pixel grid. Cases where no requested tile matrix qualifies are out of scope.",
	Assumptions: specC01.Assumptions}

func genC02Poly(t *rapid.T) SnapCase {
	if rapid.IntRange(0, 150).Draw(t, "big") == 37 {
		c := SnapCase{Grid: gen.RD, Q: 4, Shape: "big-smooth"}
		g := c.Grid.MustBuild()
		c.IDs = []int{rapid.IntRange(2, 14).Draw(t, "bigID")}
		c.Flags = gen.DrawFlags(t)
		c.Flags.Ignore = false
		ring, _ := gen.BigSmooth(t, rapid.IntRange(520, report.Scale(1500, 4000)).Draw(t, "bigN"), 4)
		if poly, anchor, ok := placeShape(t, g, c.IDs, [][]P{ring}, 4); ok {
			c.Poly, c.Anchor = poly, anchor
		}
		return c
	}
	c := SnapCase{Grid: gen.AnyGrid(t)}
	g := c.Grid.MustBuild()
	c.IDs = gen.IDs(t, g, 3, maxAddressableID(g))
	c.Flags = gen.DrawFlags(t)
	c.Flags.Ignore = false
	rings, q, shape := drawShape(t, validOpts{maxHoles: 2, maxVerts: 24})
	m := rapid.SampledFrom([]int64{1, 2, 3, 4, 6}).Draw(t, "scale")
	for _, r := range rings {
		for i := range r {
			r[i] = P{X: r[i].X * m, Y: r[i].Y * m}
		}
	}
	c.Q, c.Shape = q, fmt.Sprintf("%s*%d", shape, m)
	if poly, anchor, ok := placeShape(t, g, c.IDs, rings, q); ok {
		c.Poly, c.Anchor = poly, anchor
	}
	return c
}

func cyclicEqual(a, b []P) bool {
	if len(a) != len(b) {
		return false
	}
	if len(a) == 0 {
		return true
	}
	for s := range b {
		ok := true
		for i := range a {
			if a[i] != b[(s+i)%len(b)] {
				ok = false
				break
			}
		}
		if ok {
			return true
		}
	}
	return false
}

func oracleC02Poly(c SnapCase) (o report.Outcome) {
	a := analyse(c)
	if !scopeValid(a, &o) {
		return o
	}
	res := snapSafe(c)
	if res.Panic != nil {
		o.OutOfScope = true
		o.Label("snapping panicked (decided by C06/C09)")
		return o
	}
	qualified := 0
	for _, id := range c.IDs {
		li := a.level(id)
		ok := li.maxAll <= 1
		for _, ch := range li.chains {
			if len(ch) < 3 {
				ok = false
			}
		}
		if !ok {
			o.Label("level collapses (not in scope of this clause)")
			continue
		}
		qualified++
		inserted := false
		for i, ch := range li.chains {
			if len(ch) > len(a.fixed[i]) {
				inserted = true
			}
		}
		if inserted {
			o.Label("vertex inserted")
		}
		if li.ties.Any() {
			o.Label("tie")
		}
		if inserted || li.ties.Any() {
			o.NonTrivial = true
		}
		polys := res.Out[id]
		want := make([][]P, len(li.chains))
		for i, ch := range li.chains {
			want[i] = ch
			if c.Flags.Reverse {
				want[i] = kernel.Reversed(ch)
			}
		}
		fail := func(why string) {
			o.Failf([]string{"routed-boundary"}, "tile matrix %d: %s; routed boundary (pixel indices, shell ccw, holes cw%s) %v; returned %v", id, why, map[bool]string{true: ", then reversed", false: ""}[c.Flags.Reverse], want, polys)
		}
		if len(polys) != 1 {
			fail(fmt.Sprintf("%d polygons returned, expected exactly one", len(polys)))
			return o
		}
		pg := polys[0]
		if len(pg) != len(want) {
			fail(fmt.Sprintf("%d rings returned, expected %d", len(pg), len(want)))
			return o
		}
		if !cyclicEqual(outRing(li.lev, pg[0]), want[0]) {
			fail("shell differs from the routed shell")
			return o
		}
		used := make([]bool, len(want))
		for _, rg := range pg[1:] {
			pr := outRing(li.lev, rg)
			found := false
			for k := 1; k < len(want); k++ {
				if !used[k] && cyclicEqual(pr, want[k]) {
					used[k], found = true, true
					break
				}
			}
			if !found {
				fail(fmt.Sprintf("hole %v is not a routed hole", pr))
				return o
			}
		}
	}
	if qualified == 0 {
		o.OutOfScope = true
		o.NonTrivial = false
		o.Label("no requested level is collapse free")
	}
	return o
}

func TestC02Poly(t *testing.T) { report.Run(t, specC02Poly, genC02Poly, oracleC02Poly) }

// ---------------------------------------------------------------------------------------------------------------
// (c) exhaustive slice

type ExhCase struct {
	Pos string   `json:"pos"`
	Hot [][2]int `json:"hot"` // window relative pixel indices
	A   [2]int   `json:"a"`   // quarter pixel lattice, window relative (0..12)
	B   [2]int   `json:"b"`
}

var exhGrid = gen.GridSpec{Kind: "synthetic", NTM: 3, PxLog2: 0, OX: -24, OY: 40} // 64 x 64 pixels of size 1

var exhPositions = map[string]P{"root-split": {X: 31, Y: 30}, "deep-split": {X: 17, Y: 41}, "interior": {X: 4, Y: 8}}

func exhHotSets() [][][2]int {
	var sets [][][2]int
	for i := 0; i < 3; i++ {
		for j := 0; j < 3; j++ {
			sets = append(sets, [][2]int{{i, j}})
		}
	}
	for i := 0; i < 3; i++ {
		for j := 0; j < 3; j++ {
			for _, d := range [][2]int{{1, 0}, {0, 1}, {1, 1}, {1, -1}} {
				k, l := i+d[0], j+d[1]
				if k >= 0 && k < 3 && l >= 0 && l < 3 {
					sets = append(sets, [][2]int{{i, j}, {k, l}})
				}
			}
		}
	}
	var full [][2]int
	for i := 0; i < 3; i++ {
		for j := 0; j < 3; j++ {
			full = append(full, [2]int{i, j})
		}
	}
	return append(sets, full)
}

var specC02Exh = report.Spec{Property: "C02", Check: "C02Exh", Exhaustive: true,
	Rule: "exhaustive slice: ALL ordered pairs of endpoints on the quarter pixel lattice of a 3x3 pixel window (169^2 segments) x occupied sets {every single pixel, every pair of edge- or corner-adjacent pixels, the full window} (30 sets) x window positions {on the root split, on a deep split, interior} of a 64x64 pixel grid with origin (-24, 40); " +
		"quick tier: the deep-split position with the single pixel sets and the full window only. Same oracle as C02Seg at the deepest level and all coarser levels. Non-trivial: tie with the grid or >= 2 occupied pixels met.",
	Assumptions: specC02Seg.Assumptions}

func enumC02Exh(yield func(ExhCase) bool) {
	sets := exhHotSets()
	shard, nshards := report.Shard(), 16
	k := 0
	for _, pos := range []string{"deep-split", "root-split", "interior"} {
		for si, hs := range sets {
			if report.Tier() == "quick" {
				if pos != "deep-split" || (len(hs) != 1 && len(hs) != 9) {
					continue
				}
			} else {
				k++
				if k%nshards != shard {
					continue
				}
			}
			_ = si
			for ax := 0; ax <= 12; ax++ {
				for ay := 0; ay <= 12; ay++ {
					for bx := 0; bx <= 12; bx++ {
						for by := 0; by <= 12; by++ {
							if !yield(ExhCase{Pos: pos, Hot: hs, A: [2]int{ax, ay}, B: [2]int{bx, by}}) {
								return
							}
						}
					}
				}
			}
		}
	}
}

func oracleC02Exh(e ExhCase) report.Outcome {
	an := exhPositions[e.Pos]
	c := SegCase{Grid: exhGrid, Q: 4, Cls: e.Pos}
	for _, h := range e.Hot {
		c.Hot = append(c.Hot, [2]int64{an.X + int64(h[0]), an.Y + int64(h[1])})
	}
	f := func(u [2]int) [2]float64 {
		return [2]float64{exhGrid.OX + float64(an.X) + float64(u[0])/4, exhGrid.OY + float64(an.Y) + float64(u[1])/4}
	}
	c.Seg = [2][2]float64{f(e.A), f(e.B)}
	o := oracleC02Seg(c)
	o.Key = fmt.Sprint(e)
	o.Labels = o.Labels[:0]
	o.Label("pos=%s", e.Pos)
	o.Label("hot=%d", len(e.Hot))
	if o.NonTrivial {
		o.Label("non-trivial")
	}
	return o
}

func TestC02Exh(t *testing.T) { report.RunEnum(t, specC02Exh, enumC02Exh, oracleC02Exh) }
