package checks

import (
	"fmt"
	"testing"

	"github.com/go-spatial/geom"
	"github.com/pdok/texel/pointindex"
	"pgregory.net/rapid"

	"verifharness/gen"
	"verifharness/kernel"
	"verifharness/report"
)

// ---------------------------------------------------------------------------------------------------------------
// (a) segment level: PointIndex.SnapClosestPoints against the routing reference

type SegCase struct {
	Grid gen.GridSpec  `json:"grid"`
	Deep int           `json:"deep,omitempty"` // deepest tile matrix id (built-in grids; synthetic grids use their last one)
	Hot  [][2]int64    `json:"hot"` // pixel indices at the deepest level
	Seg  [2][2]float64 `json:"seg"`
	Q    int64         `json:"q"`
	Cls  string        `json:"cls,omitempty"`
}

var specC02Seg = report.Spec{Property: "C02", Check: "C02Seg",
	Rule: "segment level: synthetic dyadic grid of depth 4-9 levels (non-zero origins, tile widths, both corners of origin) or a built-in grid (NetherlandsRDNewQuad, WebMercatorQuad, UPSArcticWGS84Quad, EuropeanETRS89_LAEAQuad) with a drawn deepest id up to pixel level 32, a window of 4x4..6x6 pixels anchored at the origin/far corner/on the root split/on a deeper split/anywhere, " +
		"1-10 occupied pixels in the window plus 0-3 anywhere, segment endpoints on the pixel/4 (ties), pixel/3 or pixel/8 lattice of the window (60% in occupied pixels like real polygon edges, 40% free); " +
		"subject PointIndex.SnapClosestPoints at every level 1..deepest; oracle: exact centre sequence (set and order) of the routing reference (separating-axis test with symbolic shrink of the half open pixel, order by monotone chain), plus exact float equality of the centres. " +
		"Non-trivial: at the deepest level the segment has an exact tie with the pixel grid (endpoint on a border/corner, through a corner, along a border) or meets >= 2 occupied pixels. Distinct by case content.",
	Assumptions: []string{"the reference decider Meets() is cross-validated against exact-rational witness enumeration in the harness self test (kernel_test.go) and on a sample of cases at run time"}}

func (c SegCase) deepID() int {
	if c.Grid.Kind == "builtin" {
		return c.Deep
	}
	return c.Grid.NTM - 1
}

func genC02Seg(t *rapid.T) SegCase {
	c := SegCase{Grid: gen.AnyGridWide(t)}
	g := c.Grid.MustBuild()
	if c.Grid.Kind == "builtin" {
		c.Deep = rapid.IntRange(0, min(g.MaxID(), maxAddressableID(g))).Draw(t, "deepestID")
	}
	deepest := g.LevelOf(c.deepID())
	size := int64(1) << deepest
	w := rapid.Int64Range(4, 6).Draw(t, "window")
	an, cls := gen.Anchor(t, size, w)
	c.Cls = cls
	c.Q = rapid.SampledFrom([]int64{4, 4, 4, 3, 8}).Draw(t, "q")
	nh := rapid.IntRange(1, 10).Draw(t, "nHot")
	for k := 0; k < nh; k++ {
		c.Hot = append(c.Hot, [2]int64{an.X + rapid.Int64Range(0, w-1).Draw(t, "hi"), an.Y + rapid.Int64Range(0, w-1).Draw(t, "hj")})
	}
	for k := rapid.IntRange(0, 3).Draw(t, "nFar"); k > 0; k-- {
		c.Hot = append(c.Hot, [2]int64{rapid.Int64Range(0, size-1).Draw(t, "fi"), rapid.Int64Range(0, size-1).Draw(t, "fj")})
	}
	lev := kernel.Leveled{G: g, Level: deepest, Deepest: deepest}
	pl := gen.Placement{L: lev, Q: c.Q, Anchor: an}
	end := func(label string) [2]float64 {
		var u P
		if rapid.IntRange(0, 9).Draw(t, label+"InHot") < 6 {
			h := c.Hot[rapid.IntRange(0, nh-1).Draw(t, label+"hot")]
			// a lattice point of that pixel (its left/bottom borders included, right/top excluded)
			u = P{X: (h[0]-an.X)*c.Q + rapid.Int64Range(0, c.Q-1).Draw(t, label+"u"), Y: (h[1]-an.Y)*c.Q + rapid.Int64Range(0, c.Q-1).Draw(t, label+"v")}
		} else {
			u = P{X: rapid.Int64Range(0, w*c.Q-1).Draw(t, label+"x"), Y: rapid.Int64Range(0, w*c.Q-1).Draw(t, label+"y")}
		}
		f := pl.Fixed(u)
		x, _ := gen.ExactFloat(f.X)
		y, _ := gen.ExactFloat(f.Y)
		return [2]float64{x, y}
	}
	c.Seg = [2][2]float64{end("a"), end("b")}
	return c
}

func oracleC02Seg(c SegCase) (o report.Outcome) {
	g := c.Grid.MustBuild()
	deepestID := c.deepID()
	deepest := g.LevelOf(deepestID)
	a := P{X: kernel.ToFixed(c.Seg[0][0]), Y: kernel.ToFixed(c.Seg[0][1])}
	b := P{X: kernel.ToFixed(c.Seg[1][0]), Y: kernel.ToFixed(c.Seg[1][1])}
	if !g.Inside(a, deepest) || !g.Inside(b, deepest) {
		o.OutOfScope = true
		o.Label("endpoint outside the grid")
		return o
	}
	var got map[uint][][2]float64
	var pan any
	func() {
		defer func() { pan = recover() }()
		ix, err := pointindex.FromTileMatrixSet(g.TMS, deepestID)
		if err != nil {
			panic(err)
		}
		for _, h := range c.Hot {
			if err := ix.InsertCoord(int(h[0]), int(h[1])); err != nil {
				panic(err)
			}
		}
		levels := map[uint]any{}
		for l := uint(1); l <= deepest; l++ {
			levels[l] = struct{}{}
		}
		got = ix.SnapClosestPoints(geom.Line{c.Seg[0], c.Seg[1]}, levels, 0)
	}()
	if pan != nil {
		o.Failf([]string{"panic"}, "SnapClosestPoints panicked: %v", pan)
		return o
	}
	o.Label("grid=%s", gridClass(c.Grid))
	o.Label("anchor=%s", c.Cls)
	for l := uint(1); l <= deepest; l++ {
		lev := kernel.Leveled{G: g, Level: l, Deepest: deepest}
		hot := kernel.PixSet{}
		for _, h := range c.Hot {
			hot.Add(P{X: h[0] >> (deepest - l), Y: h[1] >> (deepest - l)})
		}
		want := lev.Route(a, b, hot)
		if l == deepest {
			ties := lev.Ties([][]P{{a, b}})
			if ties.Any() {
				o.Label("tie")
			}
			if len(want) >= 2 {
				o.Label("meets>=2")
			}
			if len(want) == 0 {
				o.Label("meets none")
			}
			o.NonTrivial = ties.Any() || len(want) >= 2
			if len(c.Hot)%7 == 0 { // sampled cross validation of the reference itself
				if slow := lev.RouteSlow(a, b, hot); fmt.Sprint(slow) != fmt.Sprint(want) {
					panic(fmt.Sprintf("harness defect: references disagree: %v vs %v", want, slow))
				}
			}
		}
		gl := got[l]
		gp := make([]P, len(gl))
		for i, v := range gl {
			gp[i] = lev.OutPix(v)
		}
		if fmt.Sprint(gp) != fmt.Sprint(want) {
			o.Failf([]string{"routing"}, "level %d: segment %v-%v (fixed %v-%v) with occupied pixels %v: got centres of pixels %v, the segment meets %v (in order of travel)", l, c.Seg[0], c.Seg[1], a, b, hot.Sorted(), gp, want)
			return o
		}
		for i, v := range gl {
			ce := lev.Centre(want[i])
			if v[0] != kernel.FromFixed(ce.X) || v[1] != kernel.FromFixed(ce.Y) {
				o.Failf([]string{"centre"}, "level %d: returned %v is not the centre %v/%v of pixel %v", l, v, kernel.FromFixed(ce.X), kernel.FromFixed(ce.Y), want[i])
				return o
			}
		}
	}
	return o
}

func TestC02Seg(t *testing.T) { report.Run(t, specC02Seg, genC02Seg, oracleC02Seg) }

// ---------------------------------------------------------------------------------------------------------------
// (b) polygon level: non collapsing polygons come back as exactly the routed boundary

var specC02Poly = report.Spec{Property: "C02", Check: "C02Poly",
	Rule: "polygon level: valid polygons (as C01, scaled by 1-6 so that most do not collapse) on synthetic grids, NetherlandsRDNewQuad and WebMercatorQuad; a requested tile matrix qualifies when the routed boundary visits every pixel centre at most once over all rings and every routed ring has >= 3 centres; " +
		"oracle: the result for that tile matrix is exactly one polygon whose rings are the routed rings (cyclic, direction sensitive: shell ccw, holes cw; reversed under ReverseWindingOrder; holes in any order). " +
		"Non-trivial: the routed ring has more vertices than the input ring (a vertex was inserted) or the polygon has an exact tie with the pixel grid. Cases where no requested tile matrix qualifies are out of scope.",
	Assumptions: specC01.Assumptions}

func genC02Poly(t *rapid.T) SnapCase {
	c := SnapCase{Grid: gen.AnyGrid(t)}
	g := c.Grid.MustBuild()
	c.IDs = gen.IDs(t, g, 3, maxAddressableID(g))
	c.Flags = gen.DrawFlags(t)
	c.Flags.Ignore = false
	rings, q, shape := drawShape(t, validOpts{maxHoles: 2, maxVerts: 24})
	m := rapid.SampledFrom([]int64{1, 2, 3, 4, 6}).Draw(t, "scale")
	for _, r := range rings {
		for i := range r {
			r[i] = P{X: r[i].X * m, Y: r[i].Y * m}
		}
	}
	c.Q, c.Shape = q, fmt.Sprintf("%s*%d", shape, m)
	if poly, anchor, ok := placeShape(t, g, c.IDs, rings, q); ok {
		c.Poly, c.Anchor = poly, anchor
	}
	return c
}

func cyclicEqual(a, b []P) bool {
	if len(a) != len(b) {
		return false
	}
	if len(a) == 0 {
		return true
	}
	for s := range b {
		ok := true
		for i := range a {
			if a[i] != b[(s+i)%len(b)] {
				ok = false
				break
			}
		}
		if ok {
			return true
		}
	}
	return false
}

func oracleC02Poly(c SnapCase) (o report.Outcome) {
	a := analyse(c)
	if !scopeValid(a, &o) {
		return o
	}
	res := snapSafe(c)
	if res.Panic != nil {
		o.OutOfScope = true
		o.Label("snapping panicked (decided by C06/C09)")
		return o
	}
	qualified := 0
	for _, id := range c.IDs {
		li := a.level(id)
		ok := li.maxAll <= 1
		for _, ch := range li.chains {
			if len(ch) < 3 {
				ok = false
			}
		}
		if !ok {
			o.Label("level collapses (not in scope of this clause)")
			continue
		}
		qualified++
		inserted := false
		for i, ch := range li.chains {
			if len(ch) > len(a.fixed[i]) {
				inserted = true
			}
		}
		if inserted {
			o.Label("vertex inserted")
		}
		if li.ties.Any() {
			o.Label("tie")
		}
		if inserted || li.ties.Any() {
			o.NonTrivial = true
		}
		polys := res.Out[id]
		want := make([][]P, len(li.chains))
		for i, ch := range li.chains {
			want[i] = ch
			if c.Flags.Reverse {
				want[i] = kernel.Reversed(ch)
			}
		}
		fail := func(why string) {
			o.Failf([]string{"routed-boundary"}, "tile matrix %d: %s; routed boundary (pixel indices, shell ccw, holes cw%s) %v; returned %v", id, why, map[bool]string{true: ", then reversed", false: ""}[c.Flags.Reverse], want, polys)
		}
		if len(polys) != 1 {
			fail(fmt.Sprintf("%d polygons returned, expected exactly one", len(polys)))
			return o
		}
		pg := polys[0]
		if len(pg) != len(want) {
			fail(fmt.Sprintf("%d rings returned, expected %d", len(pg), len(want)))
			return o
		}
		if !cyclicEqual(outRing(li.lev, pg[0]), want[0]) {
			fail("shell differs from the routed shell")
			return o
		}
		used := make([]bool, len(want))
		for _, rg := range pg[1:] {
			pr := outRing(li.lev, rg)
			found := false
			for k := 1; k < len(want); k++ {
				if !used[k] && cyclicEqual(pr, want[k]) {
					used[k], found = true, true
					break
				}
			}
			if !found {
				fail(fmt.Sprintf("hole %v is not a routed hole", pr))
				return o
			}
		}
	}
	if qualified == 0 {
		o.OutOfScope = true
		o.NonTrivial = false
		o.Label("no requested level is collapse free")
	}
	return o
}

func TestC02Poly(t *testing.T) { report.Run(t, specC02Poly, genC02Poly, oracleC02Poly) }

// ---------------------------------------------------------------------------------------------------------------
// (c) exhaustive slice

type ExhCase struct {
	Pos string   `json:"pos"`
	Hot [][2]int `json:"hot"` // window relative pixel indices
	A   [2]int   `json:"a"`   // quarter pixel lattice, window relative (0..12)
	B   [2]int   `json:"b"`
}

var exhGrid = gen.GridSpec{Kind: "synthetic", NTM: 3, PxLog2: 0, OX: -24, OY: 40} // 64 x 64 pixels of size 1

var exhPositions = map[string]P{"root-split": {X: 31, Y: 30}, "deep-split": {X: 17, Y: 41}, "interior": {X: 4, Y: 8}}

func exhHotSets() [][][2]int {
	var sets [][][2]int
	for i := 0; i < 3; i++ {
		for j := 0; j < 3; j++ {
			sets = append(sets, [][2]int{{i, j}})
		}
	}
	for i := 0; i < 3; i++ {
		for j := 0; j < 3; j++ {
			for _, d := range [][2]int{{1, 0}, {0, 1}, {1, 1}, {1, -1}} {
				k, l := i+d[0], j+d[1]
				if k >= 0 && k < 3 && l >= 0 && l < 3 {
					sets = append(sets, [][2]int{{i, j}, {k, l}})
				}
			}
		}
	}
	var full [][2]int
	for i := 0; i < 3; i++ {
		for j := 0; j < 3; j++ {
			full = append(full, [2]int{i, j})
		}
	}
	return append(sets, full)
}

var specC02Exh = report.Spec{Property: "C02", Check: "C02Exh", Exhaustive: true,
	Rule: "exhaustive slice: ALL ordered pairs of endpoints on the quarter pixel lattice of a 3x3 pixel window (169^2 segments) x occupied sets {every single pixel, every pair of edge- or corner-adjacent pixels, the full window} (30 sets) x window positions {on the root split, on a deep split, interior} of a 64x64 pixel grid with origin (-24, 40); " +
		"quick tier: the deep-split position with the single pixel sets and the full window only. Same oracle as C02Seg at the deepest level and all coarser levels. Non-trivial: tie with the grid or >= 2 occupied pixels met.",
	Assumptions: specC02Seg.Assumptions}

func enumC02Exh(yield func(ExhCase) bool) {
	sets := exhHotSets()
	shard, nshards := report.Shard(), 16
	k := 0
	for _, pos := range []string{"deep-split", "root-split", "interior"} {
		for si, hs := range sets {
			if report.Tier() == "quick" {
				if pos != "deep-split" || (len(hs) != 1 && len(hs) != 9) {
					continue
				}
			} else {
				k++
				if k%nshards != shard {
					continue
				}
			}
			_ = si
			for ax := 0; ax <= 12; ax++ {
				for ay := 0; ay <= 12; ay++ {
					for bx := 0; bx <= 12; bx++ {
						for by := 0; by <= 12; by++ {
							if !yield(ExhCase{Pos: pos, Hot: hs, A: [2]int{ax, ay}, B: [2]int{bx, by}}) {
								return
							}
						}
					}
				}
			}
		}
	}
}

func oracleC02Exh(e ExhCase) report.Outcome {
	an := exhPositions[e.Pos]
	c := SegCase{Grid: exhGrid, Q: 4, Cls: e.Pos}
	for _, h := range e.Hot {
		c.Hot = append(c.Hot, [2]int64{an.X + int64(h[0]), an.Y + int64(h[1])})
	}
	f := func(u [2]int) [2]float64 {
		return [2]float64{exhGrid.OX + float64(an.X) + float64(u[0])/4, exhGrid.OY + float64(an.Y) + float64(u[1])/4}
	}
	c.Seg = [2][2]float64{f(e.A), f(e.B)}
	o := oracleC02Seg(c)
	o.Key = fmt.Sprint(e)
	o.Labels = o.Labels[:0]
	o.Label("pos=%s", e.Pos)
	o.Label("hot=%d", len(e.Hot))
	if o.NonTrivial {
		o.Label("non-trivial")
	}
	return o
}

func TestC02Exh(t *testing.T) { report.RunEnum(t, specC02Exh, enumC02Exh, oracleC02Exh) }
