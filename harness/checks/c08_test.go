package checks

import (
	"reflect"
	"sort"
	"testing"

	"pgregory.net/rapid"

	"verifharness/gen"
	"verifharness/report"
)

var specC08 = report.Spec{Property: "C08", Check: "C08",
	Rule: "arbitrary and valid polygons x round grids only (synthetic dyadic with 2-4 tile matrices; NetherlandsRDNewQuad ids 0-16; roundness decided by the harness: span*1e10 mod 2^level == 0) x a drawn set of 2-4 ids x flags; " +
		"for EVERY non-empty subset S of the drawn set (listed in drawn, rotated or reversed order, some with an id listed twice): keys(Snap(p,S)) is a subset of S, and for every z in S the value Snap(p,S)[z] deep-equals Snap(p,{z})[z] (present or absent alike). " +
		"Non-trivial: >= 2 ids and the outcomes differ between levels (some requested tile matrix is absent or has a different number of polygons/rings/vertices than another). Distinct by case content.",
	Assumptions: []string{"float equality is demanded because both sides come from the same deterministic conversion"}}

type C08Case struct {
	SnapCase
	Valid bool `json:"valid"`
}

func roundGrid(t *rapid.T) gen.GridSpec {
	if rapid.IntRange(0, 3).Draw(t, "rd") == 0 {
		return gen.RD
	}
	s := gen.Synthetic(t)
	if s.NTM < 2 {
		s.NTM = 2
	}
	return s
}

// hugeCase: a ring of 66 000 to 90 000 vertices (more than 2^16: the size of national borders; thresholds, 16 bit counters and
// pre-sized buffers of the tool are only exercised from there on) that keeps its shape on the requested tile matrices.
func hugeCase(t *rapid.T) SnapCase {
	c := SnapCase{Grid: gen.RD, Q: 4, Shape: "huge-smooth"}
	g := c.Grid.MustBuild()
	top := rapid.IntRange(9, 14).Draw(t, "hugeTop")
	c.IDs = []int{top, top - rapid.IntRange(1, 2).Draw(t, "hugeStep"), top - 3}
	if rapid.Bool().Draw(t, "hugeOrder") {
		c.IDs[0], c.IDs[2] = c.IDs[2], c.IDs[0]
	}
	c.Flags = gen.DrawFlags(t)
	c.Flags.Ignore = false
	ring, _ := gen.BigSmooth(t, rapid.IntRange(66000, 90000).Draw(t, "hugeN"), 4)
	if poly, anchor, ok := placeShape(t, g, []int{top}, [][]P{ring}, 4); ok {
		c.Poly, c.Anchor = poly, anchor
	}
	return c
}

func genC08(t *rapid.T) C08Case {
	var c C08Case
	if rapid.Bool().Draw(t, "validPolygon") {
		c = C08Case{SnapCase: drawValidCase(t, validOpts{maxHoles: 2, collapseBias: rapid.Bool().Draw(t, "bias")}, roundGrid, 4), Valid: true}
	} else {
		c = C08Case{SnapCase: drawArbCase(t, roundGrid, 4, 40)}
	}
	if len(c.IDs) < 2 { // construction: add a second id
		g := c.Grid.MustBuild()
		other := rapid.IntRange(0, g.MaxID()-1).Draw(t, "secondID")
		if other >= c.IDs[0] {
			other++
		}
		c.IDs = append(c.IDs, other)
	}
	return c
}

func oracleC08(c C08Case) (o report.Outcome) {
	a := analyse(c.SnapCase)
	o.Label("grid=%s", gridClass(c.Grid))
	if len(c.Poly) == 0 || !a.inside {
		o.OutOfScope = true
		o.Label("no polygon inside the grid")
		return o
	}
	if !a.g.IsRound(a.deepest) {
		o.OutOfScope = true
		o.Label("grid not round at the deepest level")
		return o
	}
	single := map[int]SnapResult{}
	for _, id := range c.IDs {
		single[id] = snapWith(c.SnapCase, c.Poly, []int{id}, c.config())
		if single[id].Panic != nil {
			o.OutOfScope = true
			o.Label("snapping panicked (decided by C06)")
			return o
		}
		for k := range single[id].Out {
			if k != id {
				o.Failf([]string{"keys"}, "requested only tile matrix %d but the result has key %d: %v", id, k, single[id].Out)
				return o
			}
		}
	}
	sizes := map[[3]int]bool{}
	for _, id := range c.IDs {
		var sz [3]int
		for _, pg := range single[id].Out[id] {
			sz[0]++
			for _, rg := range pg {
				sz[1]++
				sz[2] += len(rg)
			}
		}
		sizes[sz] = true
	}
	if len(c.IDs) >= 2 && len(sizes) >= 2 {
		o.NonTrivial = true
		o.Label("levels differ in outcome")
	}
	if c.Shape == "huge-smooth" {
		o.Label("huge ring (>= 66 000 vertices)")
	}
	n := len(c.IDs)
	for mask := 1; mask < 1<<n; mask++ {
		var s []int
		for i, id := range c.IDs {
			if mask&(1<<i) != 0 {
				s = append(s, id)
			}
		}
		if len(s) < 2 {
			continue
		}
		if mask&1 != 0 && len(s) >= 2 { // the order in which the ids are listed is not part of the request either
			s = append(s[1:len(s):len(s)], s[0])
			if mask&2 != 0 {
				for i, j := 0, len(s)-1; i < j; i, j = i+1, j-1 {
					s[i], s[j] = s[j], s[i]
				}
			}
		}
		if mask%5 == 3 { // listing an id twice does not change the request either
			s = append(s, s[mask%len(s)])
		}
		res := snapWith(c.SnapCase, c.Poly, s, c.config())
		if res.Panic != nil {
			o.Failf([]string{"panic-together"}, "ids %v requested together panic (%v) although each alone returns", s, res.Panic)
			return o
		}
		in := map[int]bool{}
		for _, id := range s {
			in[id] = true
		}
		for k := range res.Out {
			if !in[k] {
				o.Failf([]string{"keys"}, "requested %v but the result has key %d", s, k)
				return o
			}
		}
		for _, id := range s {
			alone, okA := single[id].Out[id]
			together, okT := res.Out[id]
			if okA != okT || !reflect.DeepEqual(alone, together) {
				ss := append([]int{}, s...)
				sort.Ints(ss)
				o.Failf([]string{"depends-on-others"}, "tile matrix %d: requested alone -> %v (present %v); requested together with %v -> %v (present %v)", id, alone, okA, ss, together, okT)
				return o
			}
		}
	}
	return o
}

func TestC08(t *testing.T) { report.Run(t, specC08, genC08, oracleC08) }

// C08Huge: the same oracle on rings beyond 2^16 vertices.
var specC08Huge = report.Spec{Property: "C08", Check: "C08Huge",
	Rule: "a smooth closed curve of 66 000-90 000 vertices about two pixels apart (nothing collapses at the deepest requested tile matrix) on NetherlandsRDNewQuad, three ids between 6 and 14 in either order x flags; oracle of C08 (every subset of the ids against each id alone). " +
		"Sizes at which the tool needs minutes per polygon (rings of this length that fold onto themselves: splitRing is quadratic there) are not generated. Non-trivial as C08.",
	Assumptions: specC08.Assumptions}

func TestC08Huge(t *testing.T) {
	report.Run(t, specC08Huge, func(t *rapid.T) C08Case { return C08Case{SnapCase: hugeCase(t), Valid: true} }, oracleC08)
}
