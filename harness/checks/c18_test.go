package checks

import (
	"fmt"
	"math/big"
	"testing"

	"github.com/go-spatial/geom"
	"pgregory.net/rapid"

	"verifharness/gen"
	"verifharness/kernel"
	"verifharness/report"
)

var specC18 = report.Spec{Property: "C18", Check: "C18",
	Rule: "valid polygons biased to collapse (thin edge-split growth, combs and zig-zags with pitch below/at/above a pixel, polyomino outlines with cells of 1/4..1.5 pixel, holes hugging the shell; nested C-shaped holes; 1 case in 400 (thorough 100) a 'sieve': two lobes joined by a corridor thinner than a pixel with a grid of up to 700 (thorough 2400) holes) x grids x ids x flags; " +
		"a requested tile matrix is in scope when its routed boundary B (reference model) passes no pixel centre more than twice within a ring; oracle per such tile matrix: (1) every edge of every returned ring with >= 2 vertices is a straight run of consecutive routed edges of B, " +
		"(2) every hole vertex lies inside or on its shell and no hole edge properly crosses a shell edge, (3) the signed area of the returned rings (reverse flag undone) equals the signed area of the routed rings, exactly (pixel^2/2 units). " +
		"Non-trivial: some ring of B passes a centre twice, or two rings of B share a centre (a hole touches its shell after routing). Cases where no requested tile matrix is in scope (maxVisits >= 3 everywhere) are counted as out of scope.",
	Assumptions: specC01.Assumptions}

func genC18(t *rapid.T) SnapCase {
	if rapid.IntRange(0, report.Scale(400, 100)).Draw(t, "sieve") == 57 {
		// hundreds (thorough: up to 2400) of holes in a shell that splits in two
		c := SnapCase{Grid: gen.RD, Q: 4, Shape: "sieve"}
		g := c.Grid.MustBuild()
		c.IDs = []int{rapid.IntRange(3, 14).Draw(t, "sieveID")}
		c.Flags = gen.DrawFlags(t)
		c.Flags.Ignore = false
		rings := gen.Sieve(t, 4, report.Scale(700, 2400))
		if poly, anchor, ok := placeShape(t, g, c.IDs, rings, 4); ok {
			c.Poly, c.Anchor = poly, anchor
		}
		return c
	}
	return drawValidCase(t, validOpts{maxHoles: 2, collapseBias: true, maxVerts: 24}, gen.AnyGrid, 3)
}

// signedArea2 of a pixel index ring; rings with fewer than 3 vertices contribute 0.
func signedArea2(r []P) *big.Int {
	if len(r) < 3 {
		return new(big.Int)
	}
	return kernel.Area2(r)
}

// checkC18Level applies the three clauses to the result of one tile matrix.
func checkC18Level(o *report.Outcome, id int, li *levelInfo, polys []geom.Polygon, reverse bool) {
	fail := func(tags []string, why string) {
		o.Failf(tags, "tile matrix %d: %s; routed boundary %v; returned %v", id, why, li.chains, fmt.Sprint(polys))
	}
	want := new(big.Int)
	for _, ch := range li.chains {
		want.Add(want, signedArea2(ch))
	}
	got := new(big.Int)
	for _, pg := range polys {
		var shell []P
		for ri, rg := range pg {
			pr := outRing(li.lev, rg)
			if ri == 0 {
				shell = pr
			}
			ar := signedArea2(pr)
			if reverse {
				ar.Neg(ar)
			}
			got.Add(got, ar)
			n := len(pr)
			if n >= 2 {
				for i := 0; i < n; i++ {
					a, b := pr[i], pr[(i+1)%n]
					if !kernel.Explained(li.chains, a, b) {
						fail([]string{"invented-edge"}, fmt.Sprintf("returned edge %v-%v is not a straight run of consecutive routed edges", a, b))
						return
					}
					if n == 2 {
						break
					}
				}
			}
			if ri > 0 && len(shell) >= 3 {
				for _, p := range pr {
					if kernel.PointInRing(p, shell) < 0 {
						fail([]string{"hole-outside-shell"}, fmt.Sprintf("hole vertex %v lies outside its shell %v", p, shell))
						return
					}
				}
				for i := range pr {
					for j := range shell {
						if kernel.SegsCross(pr[i], pr[(i+1)%len(pr)], shell[j], shell[(j+1)%len(shell)]) {
							fail([]string{"hole-crosses-shell"}, fmt.Sprintf("hole edge %v-%v crosses shell edge %v-%v", pr[i], pr[(i+1)%len(pr)], shell[j], shell[(j+1)%len(shell)]))
							return
						}
					}
				}
			}
		}
	}
	if got.Cmp(want) != 0 {
		fail([]string{"area"}, fmt.Sprintf("signed area (x2, pixel^2) returned %v, routed boundary encloses %v", got, want))
	}
}

func oracleC18(c SnapCase) (o report.Outcome) {
	a := analyse(c)
	if !scopeValid(a, &o) {
		return o
	}
	res := snapSafe(c)
	if res.Panic != nil {
		o.OutOfScope = true
		o.Label("snapping panicked (decided by C06/C09)")
		return o
	}
	inScope := 0
	for _, id := range c.IDs {
		li := a.level(id)
		o.Label(visitsClass(li.maxVisits))
		if li.maxVisits >= 3 {
			continue
		}
		inScope++
		if li.maxVisits == 2 || li.maxAll >= 2 {
			o.NonTrivial = true
			if li.maxAll >= 2 && li.maxVisits < 2 {
				o.Label("rings share a centre")
			}
		}
		checkC18Level(&o, id, li, res.Out[id], c.Flags.Reverse)
		if o.Fail != "" {
			return o
		}
	}
	if inScope == 0 {
		o.OutOfScope = true
		o.NonTrivial = false
	}
	return o
}

func TestC18(t *testing.T) { report.Run(t, specC18, genC18, oracleC18) }

// C18Far / C01Far: the far-case generator (deepest tile matrices of the built-in sets, shapes that depend on hole matching and ring
// areas, collapse-prone templates) under the oracles of C18 and C01.
var specC18Far = report.Spec{Property: "C18", Check: "C18Far",
	Rule: "pinched, nested and annulus shapes and (half of the cases) the collapse-prone templates of C18 on NetherlandsRDNewQuad, WebMercatorQuad, EuropeanETRS89_LAEAQuad, UPSArcticWGS84Quad and NZTM2000Quad at their four deepest addressable tile matrices (pixels of 2 to 50 mm at ordinates of 1e5..2e7), " +
		"placed anywhere incl. the strip behind the last addressable pixel; oracle, scope and non-trivial rule of C18.",
	Assumptions: specC01.Assumptions}

func TestC18Far(t *testing.T) {
	report.Run(t, specC18Far, func(t *rapid.T) SnapCase { return drawFarCase(t, true) }, oracleC18)
}
