package checks

import (
	"runtime"
	"testing"
	"time"

	"pgregory.net/rapid"

	"verifharness/report"
)

var specC11 = report.Spec{Property: "C11", Check: "C11",
	Rule: "generated histories: the fakes (source, snapping function, each target) stop at a gate before every externally visible step (send feature i, return from snapping, receive, finish after close); the case is a schedule of up to 400 actions {release(source), release(snap), release(target k), tick} after which all gates open; " +
		"also generated: 1-5 targets, stream length 0-200 (most below 30), outcome table as C10, which targets are slow to finish after their channel closed, GOMAXPROCS in {1,2,4,16}. The same machine runs under the race detector (halt_on_error) for the share of histories stated per tier. " +
		"Oracle (invariants over the history): after every action what each target has received is a prefix of the sequential reference model's list; at the end ProcessFeatures has returned and at that moment every target had finished (checked by the calling goroutine before anything else; it then writes a field the targets read, as main.go does, so an early return is also a data race); every feature delivered; " +
		"no pipeline goroutine alive 2 s after return; no race report. Deadlock: no return 10 s after the last gate opened and all pipeline goroutines parked in channel operations/WaitGroup in two dumps 1 s apart => violation, otherwise inconclusive. " +
		"Non-trivial: >= 2 targets and (a target that is slow to finish, or a schedule that leaves a target starved (fewer releases than deliveries) while others run ahead). Distinct by case content.",
	Assumptions: []string{"the schedule owns the order of the steps at the pipeline's boundary; the runtime scheduler still orders the internal goroutines (sampled, not enumerated)"}}

func genC11(t *rapid.T) PipeCase {
	c := PipeCase{Targets: drawTargets(t), Gated: true}
	c.Feats = drawFeats(t, len(c.Targets), 30)
	nG := 2 + len(c.Targets)
	// weighted: bursts for one gate make some stages run ahead and starve others
	steps := rapid.IntRange(0, 400).Draw(t, "scheduleLen")
	for len(c.Schedule) < steps {
		g := rapid.IntRange(-1, nG-1).Draw(t, "gate")
		burst := rapid.SampledFrom([]int{1, 1, 1, 2, 5, 20}).Draw(t, "burst")
		for b := 0; b < burst && len(c.Schedule) < steps; b++ {
			c.Schedule = append(c.Schedule, g)
		}
	}
	c.Procs = rapid.SampledFrom([]int{1, 2, 4, 16}).Draw(t, "procs")
	c.SlowFin = rapid.SliceOfN(rapid.Bool(), len(c.Targets), len(c.Targets)).Draw(t, "slowfin")
	return c
}

func oracleC11(c PipeCase) (o report.Outcome) {
	captureCurrent(specC11, c)
	defer clearCurrent(specC11)
	old := runtime.GOMAXPROCS(max(c.Procs, 1))
	defer runtime.GOMAXPROCS(old)
	o.Label("targets=%d", len(c.Targets))
	o.Label("procs=%d", c.Procs)
	r := buildRun(c)
	r.start()
	releases := make([]int, len(r.gates))
	for _, a := range c.Schedule {
		if a >= 0 && a < len(r.gates) {
			r.gates[a].release()
			releases[a]++
		} else {
			runtime.Gosched()
			time.Sleep(30 * time.Microsecond)
		}
		if why := r.prefixCheck(false); why != "" {
			o.Failf([]string{"delivery"}, "during the history: %s", why)
			break
		}
	}
	for _, g := range r.gates {
		g.openAll()
	}
	if o.Fail != "" {
		// let the run end before reporting, so that nothing of this case lingers into the next
		select {
		case <-r.returned:
		case <-time.After(hangLimit()):
		}
		return o
	}
	r.finish(specC11, &o)
	slow := false
	for k := range c.Targets {
		if k < len(c.SlowFin) && c.SlowFin[k] {
			slow = true
		}
	}
	starved := false
	for k := range c.Targets {
		if releases[2+k] < len(r.expected[k]) && releases[0] >= len(c.Feats) {
			starved = true
		}
	}
	if len(c.Targets) >= 2 && (slow || starved) {
		o.NonTrivial = true
	}
	if slow {
		o.Label("slow finish")
	}
	if starved {
		o.Label("starved target")
	}
	return o
}

func TestC11(t *testing.T) { report.Run(t, specC11, genC11, oracleC11) }
