package checks

import (
	"runtime"
	"testing"
	"time"

	"pgregory.net/rapid"

	"verifharness/report"
)

var specC11 = report.Spec{Property: "C11", Check: "C11",
	Rule: "generated histories: the fakes (source, snapping function, each target) stop at a gate before every externally visible step (send feature i, return from snapping, receive, finish after close); the case is a schedule of up to 400 actions {release(source), release(snap), release(target k), tick} after which all gates open; " +
		"also generated: 1-5 targets (1 in 15 cases 6-16), stream length 0-200 (most below 30), outcome table as C10, which targets are slow to finish after their channel closed, GOMAXPROCS in {1,2,4,16}. The same machine runs under the race detector (halt_on_error) for the share of histories stated per tier. " +
		"Oracle (invariants over the history): after every action what each target has received is a prefix of the sequential reference model's list; at the end ProcessFeatures has returned and at that moment every target had finished (checked by the calling goroutine before anything else; it then writes a field the targets read, as main.go does, so an early return is also a data race); every feature delivered; " +
		"no pipeline goroutine alive 2 s after return; no race report. Deadlock: no return 10 s after the last gate opened and all pipeline goroutines parked in channel operations/WaitGroup in two dumps 1 s apart => violation, otherwise inconclusive. " +
		"Non-trivial: >= 2 targets and (a target that is slow to finish, or a schedule that leaves a target starved (fewer releases than deliveries) while others run ahead). Distinct by case content.",
	Assumptions: []string{"the schedule owns the order of the steps at the pipeline's boundary; the runtime scheduler still orders the internal goroutines (sampled, not enumerated)"}}

func genC11(t *rapid.T) PipeCase {
	c := PipeCase{Targets: drawTargets(t), Gated: true}
	c.Feats = drawFeats(t, len(c.Targets), 30)
	nG := 2 + len(c.Targets)
	// weighted: bursts for one gate make some stages run ahead and starve others
	steps := rapid.IntRange(0, 400).Draw(t, "scheduleLen")
	for len(c.Schedule) < steps {
		g := rapid.IntRange(-1, nG-1).Draw(t, "gate")
		burst := rapid.SampledFrom([]int{1, 1, 1, 2, 5, 20}).Draw(t, "burst")
		for b := 0; b < burst && len(c.Schedule) < steps; b++ {
			c.Schedule = append(c.Schedule, g)
		}
	}
	c.Procs = rapid.SampledFrom([]int{1, 2, 4, 16}).Draw(t, "procs")
	c.SlowFin = rapid.SliceOfN(rapid.Bool(), len(c.Targets), len(c.Targets)).Draw(t, "slowfin")
	c.Breaks = drawBreaks(t, len(c.Feats))
	c.SlowFeat = drawStraggler(t, c.Feats)
	return c
}

func oracleC11(c PipeCase) (o report.Outcome) {
	captureCurrent(specC11, c)
	defer clearCurrent(specC11)
	old := runtime.GOMAXPROCS(max(c.Procs, 1))
	defer runtime.GOMAXPROCS(old)
	o.Label("targets=%d", len(c.Targets))
	o.Label("procs=%d", c.Procs)
	r := buildRun(c)
	r.start()
	releases := make([]int, len(r.gates))
	for _, a := range c.Schedule {
		if a >= 0 && a < len(r.gates) {
			r.gates[a].release()
			releases[a]++
		} else {
			runtime.Gosched()
			time.Sleep(30 * time.Microsecond)
		}
		if why := r.prefixCheck(false); why != "" {
			o.Failf([]string{"delivery"}, "during the history: %s", why)
			break
		}
	}
	for _, g := range r.gates {
		g.openAll()
	}
	if o.Fail != "" {
		// let the run end before reporting, so that nothing of this case lingers into the next
		select {
		case <-r.returned:
		case <-time.After(hangLimit()):
		}
		return o
	}
	r.finish(specC11, &o)
	slow := false
	for k := range c.Targets {
		if k < len(c.SlowFin) && c.SlowFin[k] {
			slow = true
		}
	}
	starved := false
	for k := range c.Targets {
		if releases[2+k] < len(r.expected[k]) && releases[0] >= len(c.Feats) {
			starved = true
		}
	}
	if len(c.Targets) >= 2 && (slow || starved) {
		o.NonTrivial = true
	}
	if slow {
		o.Label("slow finish")
	}
	if starved {
		o.Label("starved target")
	}
	return o
}

func TestC11(t *testing.T) { report.Run(t, specC11, genC11, oracleC11) }

// ---------------------------------------------------------------------------------------------------------------
// the same pipeline with REAL GeoPackage targets (they run concurrently, one goroutine per target), under the race detector

type C11GpkgCase struct {
	Targets  []int `json:"targets"`
	N        int   `json:"n"`
	PageSize int   `json:"pagesize"`
	NCols    int   `json:"ncols"`
	Procs    int   `json:"procs"`
}

var specC11Gpkg = report.Spec{Property: "C11", Check: "C11Gpkg",
	Rule: "processing.ProcessFeatures with a fake source (feature columns built by append like the real reader, so the slices have spare capacity), a fake snapping function returning a marker polygon per tile matrix, and 2-5 REAL gpkg.TargetGeopackage targets on scratch files, 1-60 features, page size 1-20, GOMAXPROCS in {2,4,16}; run under the race detector (halt_on_error) in both tiers. " +
		"Oracle: no race report; after return every target file holds every feature once, in order, with its own attributes and the geometry computed for ITS tile matrix. Non-trivial: >= 2 targets and >= 5 features. Distinct by case content.",
	Assumptions: []string{"the verif-tagged stub driver stands in for SpatiaLite"}}

func genC11Gpkg(t *rapid.T) C11GpkgCase {
	c := C11GpkgCase{Targets: drawTargets(t)}
	if len(c.Targets) < 2 {
		c.Targets = append(c.Targets, (c.Targets[0]+1)%25)
	}
	c.N = rapid.IntRange(1, 60).Draw(t, "n")
	c.PageSize = rapid.IntRange(1, 20).Draw(t, "pagesize")
	c.NCols = rapid.IntRange(0, 6).Draw(t, "ncols")
	c.Procs = rapid.SampledFrom([]int{2, 4, 16}).Draw(t, "procs")
	return c
}

func TestC11Gpkg(t *testing.T) {
	report.Run(t, specC11Gpkg, genC11Gpkg, oracleC11Gpkg)
}
