package checks

import (
	"encoding/json"
	"fmt"
	"math"
	"math/big"
	"sort"
	"sync"
	"testing"

	"github.com/go-spatial/geom"
	"github.com/go-spatial/geom/slippy"
	"github.com/pdok/texel/tms20"
	"pgregory.net/rapid"

	"verifharness/gen"
	"verifharness/kernel"
	"verifharness/report"
)

type TileCase struct {
	Set     string  `json:"set"`
	TM      int     `json:"tm"`
	X       uint    `json:"x"`
	Y       uint    `json:"y"`
	FX      float64 `json:"fx"` // interior fractions
	FY      float64 `json:"fy"`
	Twin    bool    `json:"twin"`    // use the twin with the other corner of origin
	OutSide string  `json:"outside"` // which side the outside probe lies on
	OutFrac float64 `json:"outfrac"` // how many tiles beyond
	Class   string  `json:"class"`
	Prev    string  `json:"prev,omitempty"`    // decode this set into the variable first, use it, then decode Set into the same variable
	Edge    string  `json:"edge,omitempty"`    // a second interior point hugging this edge (or corner) of the tile ...
	EdgeExp int     `json:"edgeexp,omitempty"` // ... at 2^-EdgeExp of a tile from it
}

var specC15 = report.Spec{Property: "C15", Check: "C15",
	Rule: "every built-in set x every tile matrix without variable widths x tiles (the four corner tiles, border tiles, random tiles over the full matrix) x an interior point at fractions in [0.01, 0.99]^2 x an outside point 1%-300% of a tile beyond one of the four sides, or with an infinite or NaN ordinate, or (1 in 3) finite but 1e15 .. MaxFloat64 away; every second case a second interior point 2^-24 .. 2^-44 of a tile from an edge or corner of the tile, whose tile is decided with rational arithmetic and checked when the exact tile coordinate keeps more than |q|*2^-49 from a whole number (three float64 roundings cannot move it across); 1 case in ~40 decodes another document into a variable, uses it, and decodes the set under test into the same variable; " +
		"each case on the set itself or on its twin (corner of origin flipped, point of origin moved to the other corner: same extent). Oracle: an independent x,y extent from the document numbers (axis order from orderedAxes, origin, matrix size x tile size x cell size): " +
		"ToNative(tile) = the top left corner of that tile by the harness' arithmetic (tolerance 2e-9 + 8 ulp), FromNative(interior point) = that tile, outside => no tile, ToNative accepts x = width / y = height and rejects beyond, " +
		"MatrixBoundingBox = [corner of tile (0,0), corner of tile (w,h)] = the independent extent, twin and original give the same extent and the same tile after flipping the row. " +
		"Non-trivial: lat/lon ordered CRS, or the twin, or a non-square matrix, or a border tile. Distinct by case content.",
	Assumptions: []string{"the independent extent trusts only the document numbers and orderedAxes, not tms20's EPSG axis table"}}

var (
	setsOnce sync.Once
	setsTM   = map[string]tms20.TileMatrixSet{}
	setsIDs  = map[string][]int{}
	setsElig []string // sets that have at least one tile matrix without variable widths
)

func loadSets() {
	setsOnce.Do(func() {
		for _, name := range gen.AllBuiltin {
			tms, err := tms20.LoadEmbeddedTileMatrixSet(name)
			if err != nil {
				panic(err)
			}
			setsTM[name] = tms
			for id, tm := range tms.TileMatrices {
				if tm.VariableMatrixWidths == nil {
					setsIDs[name] = append(setsIDs[name], id)
				}
			}
			sort.Ints(setsIDs[name])
			if len(setsIDs[name]) > 0 {
				setsElig = append(setsElig, name)
			}
		}
	})
}

func genC15(t *rapid.T) TileCase {
	loadSets()
	c := TileCase{Set: rapid.SampledFrom(setsElig).Draw(t, "set")}
	ids := setsIDs[c.Set]
	c.TM = ids[rapid.IntRange(0, len(ids)-1).Draw(t, "tm")]
	tm := setsTM[c.Set].TileMatrices[c.TM]
	w, h := tm.MatrixWidth, tm.MatrixHeight
	c.Class = rapid.SampledFrom([]string{"corner", "border", "random", "random"}).Draw(t, "tileClass")
	switch c.Class {
	case "corner":
		c.X = []uint{0, w - 1}[rapid.IntRange(0, 1).Draw(t, "cx")]
		c.Y = []uint{0, h - 1}[rapid.IntRange(0, 1).Draw(t, "cy")]
	case "border":
		c.X = rapid.UintRange(0, w-1).Draw(t, "x")
		c.Y = rapid.UintRange(0, h-1).Draw(t, "y")
		switch rapid.IntRange(0, 3).Draw(t, "side") {
		case 0:
			c.X = 0
		case 1:
			c.X = w - 1
		case 2:
			c.Y = 0
		case 3:
			c.Y = h - 1
		}
	default:
		c.X = rapid.UintRange(0, w-1).Draw(t, "x")
		c.Y = rapid.UintRange(0, h-1).Draw(t, "y")
	}
	c.FX = rapid.Float64Range(0.01, 0.99).Draw(t, "fx")
	c.FY = rapid.Float64Range(0.01, 0.99).Draw(t, "fy")
	c.Twin = rapid.Bool().Draw(t, "twin")
	c.OutSide = rapid.SampledFrom([]string{"left", "right", "below", "above", "left", "right", "below", "above", "+inf", "-inf", "nan-x", "nan-y"}).Draw(t, "outside")
	if rapid.IntRange(0, 39).Draw(t, "reuse") == 17 {
		c.Prev = rapid.SampledFrom(setsElig).Draw(t, "prev")
	}
	c.OutFrac = rapid.Float64Range(0.01, 3).Draw(t, "outfrac")
	if rapid.IntRange(0, 2).Draw(t, "far") == 1 { // finite, but astronomically far outside
		c.OutSide = rapid.SampledFrom([]string{"far-left", "far-right", "far-below", "far-above"}).Draw(t, "farSide")
		c.OutFrac = rapid.SampledFrom([]float64{1e15, 9.3e18, 1e19, 1.9e19, 1e30, 1e100, 1e300, math.MaxFloat64}).Draw(t, "farValue")
	}
	if rapid.Bool().Draw(t, "edge") {
		c.Edge = rapid.SampledFrom([]string{"right", "bottom", "left", "top", "bottomright", "topleft"}).Draw(t, "edgeSide")
		c.EdgeExp = rapid.IntRange(24, 44).Draw(t, "edgeExp")
	}
	return c
}

// twinOf flips the corner of origin of every matrix and moves its point of origin to the other corner.
func twinOf(tms tms20.TileMatrixSet) tms20.TileMatrixSet {
	tw := tms
	tw.TileMatrices = map[int]tms20.TileMatrix{}
	swapped := kernel.DocAxesSwapped(tms.OrderedAxes)
	for id, tm := range tms.TileMatrices {
		o := *tm.PointOfOrigin
		spanY := float64(tm.MatrixHeight) * float64(tm.TileHeight) * tm.CellSize
		yi := 1
		if swapped {
			yi = 0
		}
		if tm.CornerOfOrigin == tms20.BottomLeft {
			o[yi] += spanY
			tm.CornerOfOrigin = tms20.TopLeft
		} else {
			o[yi] -= spanY
			tm.CornerOfOrigin = tms20.BottomLeft
		}
		tm.PointOfOrigin = &o
		tw.TileMatrices[id] = tm
	}
	return tw
}

func near(a, b float64) bool {
	return math.Abs(a-b) <= 2e-9+8*ulp(math.Max(math.Abs(a), math.Abs(b)))
}

func oracleC15(c TileCase) (o report.Outcome) {
	loadSets()
	orig := setsTM[c.Set]
	tms := orig
	if c.Prev != "" {
		// one variable, two documents: decode Prev, use it, decode Set over it (like a long running program would)
		loadDocs()
		var v tms20.TileMatrixSet
		if err := json.Unmarshal(docsBytes[c.Prev], &v); err != nil {
			panic(err)
		}
		func() {
			defer func() { _ = recover() }()
			for id := range v.TileMatrices {
				_, _, _ = v.MatrixBoundingBox(id)
				_, _ = v.ToNative(slippy.NewTile(uint(id), 0, 0))
				break
			}
		}()
		if err := json.Unmarshal(docsBytes[c.Set], &v); err != nil {
			panic(err)
		}
		tms = v
		o.Label("variable reused")
	}
	if c.Twin {
		tms = twinOf(tms)
	}
	tm := tms.TileMatrices[c.TM]
	swapped := kernel.DocAxesSwapped(tms.OrderedAxes)
	o.Label("set=%s", c.Set)
	o.Label("tile=%s", c.Class)
	if swapped || c.Twin || tm.MatrixWidth != tm.MatrixHeight || c.Class != "random" {
		o.NonTrivial = true
	}
	// the independent extent is always derived from the ORIGINAL document; the twin must describe the same extent
	minX, minY, spanX, spanY, err := kernel.DocExtent(&orig, c.TM)
	if err != nil {
		panic(err)
	}
	maxX, maxY := minX+spanX, minY+spanY
	tsx, tsy := float64(tm.TileWidth)*tm.CellSize, float64(tm.TileHeight)*tm.CellSize
	bottomLeft := tm.CornerOfOrigin == tms20.BottomLeft
	z := uint(c.TM)
	fail := func(format string, a ...any) {
		o.Failf([]string{"addressing"}, "%s tile matrix %d (twin=%v, corner %q, axes %v): %s", c.Set, c.TM, c.Twin, tm.CornerOfOrigin, tms.OrderedAxes, fmt.Sprintf(format, a...))
	}
	var pan any
	func() {
		defer func() { pan = recover() }()
		// expected top left corner of tile (x, y)
		corner := func(x, y uint) (float64, float64) {
			if bottomLeft {
				return minX + float64(x)*tsx, minY + float64(y+1)*tsy
			}
			return minX + float64(x)*tsx, maxY - float64(y)*tsy
		}
		ex, ey := corner(c.X, c.Y)
		got, ok := tms.ToNative(slippy.NewTile(z, c.X, c.Y))
		if !ok || !near(got[0], ex) || !near(got[1], ey) {
			fail("ToNative(tile %d,%d) = %v (ok=%v), expected the top left corner (%v, %v)", c.X, c.Y, got, ok, ex, ey)
			return
		}
		// interior point of the tile
		pt := geom.Point{ex + c.FX*tsx, ey - c.FY*tsy}
		tile, ok := tms.FromNative(z, pt)
		if !ok || tile.X != c.X || tile.Y != c.Y || tile.Z != z {
			fail("FromNative(%v), a point strictly inside tile (%d,%d), = %v (ok=%v)", pt, c.X, c.Y, tile, ok)
			return
		}
		// a second interior point that hugs an edge of the tile. Which tile it belongs to is decided exactly (rationals over the
		// document numbers as the tool reads them); the clause applies when the exact tile coordinate is farther from a whole number
		// than the three roundings of the tool's float64 arithmetic can move it (|q| * 2^-49)
		if c.Edge != "" {
			d := math.Ldexp(1, -c.EdgeExp)
			fx, fy := c.FX, c.FY
			switch c.Edge {
			case "right":
				fx = 1 - d
			case "left":
				fx = d
			case "bottom":
				fy = 1 - d
			case "top":
				fy = d
			case "bottomright":
				fx, fy = 1-d, 1-d
			case "topleft":
				fx, fy = d, d
			}
			ep := geom.Point{ex + fx*tsx, ey - fy*tsy}
			oxy := *tm.PointOfOrigin
			if swapped {
				oxy[0], oxy[1] = oxy[1], oxy[0]
			}
			qx, okx := exactTileCoord(ep[0], oxy[0], tm.TileWidth, tm.CellSize, false)
			qy, oky := exactTileCoord(ep[1], oxy[1], tm.TileHeight, tm.CellSize, !bottomLeft)
			if okx && oky {
				o.Label("edge hugging point decided exactly")
				o.NonTrivial = true
				inside := qx >= 0 && qy >= 0 && qx < int64(tm.MatrixWidth) && qy < int64(tm.MatrixHeight)
				et, ok := tms.FromNative(z, ep)
				if ok != inside || (ok && (int64(et.X) != qx || int64(et.Y) != qy)) {
					fail("FromNative(%v), a point 2^-%d of a tile from the %s edge of tile (%d,%d), = %v (ok=%v); exactly it lies in column %d, row %d (inside the matrix: %v)", ep, c.EdgeExp, c.Edge, c.X, c.Y, et, ok, qx, qy, inside)
					return
				}
			} else {
				o.Label("edge hugging point within float noise of an edge (not decided)")
			}
		}
		// the same point on the other convention: same column, flipped row
		other := orig
		if !c.Twin {
			other = twinOf(orig)
		}
		t2, ok := other.FromNative(z, pt)
		if !ok || t2.X != c.X || t2.Y != tm.MatrixHeight-1-c.Y {
			fail("with the other corner of origin FromNative(%v) = %v (ok=%v), expected column %d and the flipped row %d", pt, t2, ok, c.X, tm.MatrixHeight-1-c.Y)
			return
		}
		// outside
		var op geom.Point
		switch c.OutSide {
		case "left":
			op = geom.Point{minX - c.OutFrac*tsx, pt[1]}
		case "right":
			op = geom.Point{maxX + c.OutFrac*tsx, pt[1]}
		case "below":
			op = geom.Point{pt[0], minY - c.OutFrac*tsy}
		case "+inf":
			op = geom.Point{math.Inf(1), pt[1]}
		case "-inf":
			op = geom.Point{pt[0], math.Inf(-1)}
		case "nan-x":
			op = geom.Point{math.NaN(), pt[1]}
		case "nan-y":
			op = geom.Point{pt[0], math.NaN()}
		case "far-left":
			op = geom.Point{-c.OutFrac, pt[1]}
		case "far-right":
			op = geom.Point{c.OutFrac, pt[1]}
		case "far-below":
			op = geom.Point{pt[0], -c.OutFrac}
		case "far-above":
			op = geom.Point{pt[0], c.OutFrac}
		default:
			op = geom.Point{pt[0], maxY + c.OutFrac*tsy}
		}
		if tl, ok := tms.FromNative(z, op); ok {
			fail("FromNative(%v), %v of a tile %s the extent [%v,%v]x[%v,%v], returned tile %v", op, c.OutFrac, c.OutSide, minX, maxX, minY, maxY, tl)
			return
		}
		// bounding box
		bl, tr, err := tms.MatrixBoundingBox(c.TM)
		if err != nil || !near(bl[0], minX) || !near(bl[1], minY) || !near(tr[0], maxX) || !near(tr[1], maxY) {
			fail("MatrixBoundingBox = %v %v (err %v), the document describes [%v, %v] - [%v, %v]", bl, tr, err, minX, minY, maxX, maxY)
			return
		}
		c00, ok1 := tms.ToNative(slippy.NewTile(z, 0, 0))
		cwh, ok2 := tms.ToNative(slippy.NewTile(z, tm.MatrixWidth, tm.MatrixHeight))
		if !ok1 || !ok2 {
			fail("ToNative rejects tile (0,0) or (width,height): %v %v", ok1, ok2)
			return
		}
		// corner of tile (0,0) and of tile (w,h): the bounding box spans exactly between them
		e0x, e0y := corner(0, 0)
		ewx, ewy := corner(tm.MatrixWidth, tm.MatrixHeight)
		if !near(c00[0], e0x) || !near(c00[1], e0y) || !near(cwh[0], ewx) || !near(cwh[1], ewy) {
			fail("corners: ToNative(0,0) = %v expected (%v,%v); ToNative(w,h) = %v expected (%v,%v)", c00, e0x, e0y, cwh, ewx, ewy)
			return
		}
		xs := []float64{c00[0], cwh[0]}
		if !near(math.Min(xs[0], xs[1]), bl[0]) || !near(math.Max(xs[0], xs[1]), tr[0]) {
			fail("bounding box x range %v..%v does not span from the corner of tile (0,0) to the corner of tile (w,h): %v, %v", bl[0], tr[0], c00, cwh)
			return
		}
		// in y the corners of (0,0) and (w,h) are tsy apart from the box for the bottom left convention (top left corners are reported)
		y0, y1 := c00[1], cwh[1]
		if bottomLeft {
			y0, y1 = y0-tsy, y1-tsy
		}
		if !near(math.Min(y0, y1), bl[1]) || !near(math.Max(y0, y1), tr[1]) {
			fail("bounding box y range %v..%v does not span from the corner of tile (0,0) to the corner of tile (w,h): %v, %v", bl[1], tr[1], c00, cwh)
			return
		}
		if _, ok := tms.ToNative(slippy.NewTile(z, tm.MatrixWidth+1, 0)); ok {
			fail("ToNative accepts column width+1")
			return
		}
		if _, ok := tms.ToNative(slippy.NewTile(z, 0, tm.MatrixHeight+1)); ok {
			fail("ToNative accepts row height+1")
		}
	}()
	if pan != nil {
		fail("panic: %v", pan)
	}
	return o
}

// exactTileCoord: floor((p - o) / (n * cell)) (or (o - p) / ... when the axis is counted downwards) over the rationals, and whether the
// quotient keeps a distance of more than |q| * 2^-49 + 2^-70 from every whole number.
func exactTileCoord(p, o float64, n uint, cell float64, downwards bool) (int64, bool) {
	if math.IsInf(p, 0) || math.IsNaN(p) {
		return 0, false
	}
	num := new(big.Rat).Sub(new(big.Rat).SetFloat64(p), new(big.Rat).SetFloat64(o))
	if downwards {
		num.Neg(num)
	}
	den := new(big.Rat).Mul(new(big.Rat).SetInt64(int64(n)), new(big.Rat).SetFloat64(cell))
	q := new(big.Rat).Quo(num, den)
	fl := new(big.Int).Div(q.Num(), q.Denom()) // floor for a positive denominator
	if !fl.IsInt64() {
		return 0, false
	}
	lo := new(big.Rat).Sub(q, new(big.Rat).SetInt(fl))   // distance to the whole number below
	hi := new(big.Rat).Sub(new(big.Rat).SetInt64(1), lo) // and above
	margin := new(big.Rat).Mul(new(big.Rat).Abs(q), new(big.Rat).SetFrac64(1, 1<<49))
	margin.Add(margin, new(big.Rat).SetFrac(big.NewInt(1), new(big.Int).Lsh(big.NewInt(1), 70)))
	if lo.Cmp(margin) <= 0 || hi.Cmp(margin) <= 0 {
		return 0, false
	}
	return fl.Int64(), true
}

func TestC15(t *testing.T) { report.Run(t, specC15, genC15, oracleC15) }
