package checks

import (
	"bytes"
	"encoding/json"
	"fmt"
	"hash/fnv"
	"math"
	"os"
	"path/filepath"
	"reflect"
	"sort"
	"strconv"
	"strings"
	"sync"
	"sync/atomic"
	"testing"
	"unicode/utf8"

	"github.com/pdok/texel/tms20"
	"pgregory.net/rapid"

	"verifharness/report"
)

// Mut is one structural mutation of a JSON document.
type Mut struct {
	Path []any           `json:"path"` // keys (string) and indices (number)
	Op   string          `json:"op"`   // delete | set | append
	Val  json.RawMessage `json:"val,omitempty"`
}

type DocCase struct {
	Base string `json:"base"` // name of a shipped document, or "" when Raw is used
	Muts []Mut  `json:"muts"`
	Raw  string `json:"raw,omitempty"` // fuzz: the document text itself
}

var specC16 = report.Spec{Property: "C16", Check: "C16",
	Rule: "the 14 built-in documents and the repository's test document, mutated 0-4 deep by a structure aware mutator over the parsed JSON tree (delete key, drop array element, replace by a value of another JSON type, replace a number by one of {0,-1,0.5,1.5,2^53,-2^53,2,256}, replace a string, " +
		"swap the crs for each of its three forms (uri string/object, wkt with id, referenceSystem), re-spell a crs uri as object or string, extend an array, duplicate a tile matrix id, add an optional member the document lacks - variableMatrixWidths (empty, one entry, null), keywords, description, title, cornerOfOrigin, boundingBox, orderedAxes, wellKnownScaleSet - with empty values included), half of the mutations aimed at tile matrix fields, one third of the multi-mutation cases focused on one sub tree (a tile matrix, a variableMatrixWidths entry, the bounding box, the crs). Oracle: (a) decoding never panics; (b) if decoding succeeds: encoding succeeds, decode(encode(x)) equals x (field by field, a nil and an empty list being the same value) and behaves like x through the API (MatrixBoundingBox and FromNative per tile matrix: same result or same failure), and encode(decode(encode(x))) is byte-identical to encode(x); " +
		"(c) unmutated documents: encode(decode(doc)) equals doc as JSON values; (c') the encoding of a value decoded earlier in the run (one retained value per shipped document) does not change when other documents are decoded in between; (d) must-reject (decided by an independent predicate over the JSON tree): crs or tileMatrices missing/null/of the wrong JSON type, tileMatrices empty or holding a non-object, a required tile matrix field (id, scaleDenominator, cellSize, pointOfOrigin, tileWidth, tileHeight, matrixWidth, matrixHeight) missing or of the wrong JSON type, " +
		"pointOfOrigin not two numbers, a size field (sizes, cellSize, scaleDenominator) <= 0, id not an integer string => decoding returns an error. Other mutants may go either way. (e) one case in three (by content): tms20.LoadJSONTileMatrixSet on a file with the same bytes gives the same verdict and value as decoding the bytes, and a document followed by anything but white space (a second value, a stray bracket, a number, merge conflict text) is refused by both routes. Non-trivial: >= 1 mutation and (still decodes, or falls in a must-reject class). Distinct by (base, mutations).",
	Assumptions: []string{"numbers are confined to |v| <= 2^53", "equality of decoded values: structural, nil and empty lists identified, plus indistinguishable through MatrixBoundingBox/FromNative"}}

var (
	docsOnce  sync.Once
	docNames  []string
	docsBytes = map[string][]byte{}
)

func repoDir() string {
	if d := os.Getenv("VERIF_REPO"); d != "" {
		return d
	}
	return "/repo"
}

func loadDocs() {
	docsOnce.Do(func() {
		files, _ := filepath.Glob(filepath.Join(repoDir(), "tms20", "tilematrixsets", "*.json"))
		more, _ := filepath.Glob(filepath.Join(repoDir(), "tms20", "testdata", "*.json"))
		for _, f := range append(files, more...) {
			b, err := os.ReadFile(f)
			if err != nil {
				panic(err)
			}
			n := strings.TrimSuffix(filepath.Base(f), ".json")
			docNames = append(docNames, n)
			docsBytes[n] = b
		}
		sort.Strings(docNames)
		if len(docNames) < 15 {
			panic(fmt.Sprintf("harness: expected 15 documents under %s, found %d", repoDir(), len(docNames)))
		}
	})
}

func parseDoc(b []byte) any {
	var v any
	d := json.NewDecoder(bytes.NewReader(b))
	if err := d.Decode(&v); err != nil {
		panic(err)
	}
	return v
}

var crsForms = []string{
	`"http://www.opengis.net/def/crs/EPSG/0/3857"`,
	`{"uri":"http://www.opengis.net/def/crs/EPSG/0/28992","description":"as object"}`,
	`{"wkt":{"id":{"authority":"EPSG","code":"3857"},"name":"x"}}`,
	`{"wkt":{"id":{"authority":"EPSG","code":3857}}}`,
	`{"referenceSystem":{"a":1,"b":[1,2]},"description":"ref"}`,
	`{"referenceSystem":{}}`,
	`"urn:ogc:def:crs:EPSG::2193"`,
	`"not a uri"`,
	// other spellings people write for a CRS: (safe) CURIEs, bare codes, brackets and separators without a second part
	`"[EPSG:28992]"`, `"[EPSG]"`, `"[]"`, `"["`, `"EPSG:28992"`, `"EPSG:"`, `":28992"`, `"EPSG"`, `"28992"`, `"urn:ogc:def:crs:EPSG:"`, `"http://www.opengis.net/def/crs/EPSG/0/"`, `"http://www.opengis.net/def/crs/"`, `"/"`, `"::"`, `""`,
	`{"uri":"[EPSG]"}`, `{"uri":""}`, `{"uri":"EPSG:28992"}`,
}

var optionalMatrixMembers = [][2]string{{"variableMatrixWidths", `[]`}, {"variableMatrixWidths", `[]`}, {"variableMatrixWidths", `[{"coalesce":2,"minTileRow":0,"maxTileRow":0}]`}, {"variableMatrixWidths", `null`},
	{"description", `""`}, {"description", `"d"`}, {"keywords", `[]`}, {"keywords", `["k"]`}, {"title", `"t"`}, {"title", `""`}, {"cornerOfOrigin", `"bottomLeft"`}, {"cornerOfOrigin", `"topLeft"`}, {"cornerOfOrigin", `""`}}

var optionalTopMembers = [][2]string{{"keywords", `[]`}, {"keywords", `["a","b"]`}, {"description", `""`}, {"title", `""`}, {"wellKnownScaleSet", `"http://www.opengis.net/def/wkss/OGC/1.0/GoogleMapsCompatible"`}, {"wellKnownScaleSet", `""`},
	{"boundingBox", `{"lowerLeft":[0,0],"upperRight":[1,1]}`}, {"boundingBox", `{"lowerLeft":[0,0],"upperRight":[1,1],"crs":"http://www.opengis.net/def/crs/EPSG/0/3857","orderedAxes":["X","Y"]}`}, {"orderedAxes", `["X","Y"]`}, {"orderedAxes", `[]`}, {"uri", `""`}, {"id", `""`}}

var extremeIDs = []string{`"9223372036854775807"`, `"-9223372036854775808"`, `"-9223372036854775807"`, `"9223372036854775806"`, `"-1"`, `"4611686018427387904"`,
	// identifiers as other tile services spell them: prefixed, padded, signed, in another base - integers to a lenient reader, not to this one
	`"EPSG:28992:12"`, `"a:3"`, `":7"`, `"7:"`, `"z7"`, `"7z"`, `" 7"`, `"7 "`, `"07"`, `"+7"`, `"0x10"`, `"1e1"`, `"7.0"`, `"1_0"`, `"٧"`, `""`}

var replacementValues = []string{`null`, `true`, `0`, `-1`, `0.5`, `1.5`, `9007199254740992`, `-9007199254740992`, `2`, `256`, `"x"`, `""`, `"12"`, `"1.5"`, `"-3"`, `[]`, `{}`, `[1,"a"]`, `[1,2,3]`, `[1]`, `{"a":1}`}

func sortedKeys(m map[string]any) []string {
	ks := make([]string, 0, len(m))
	for k := range m {
		ks = append(ks, k)
	}
	sort.Strings(ks)
	return ks
}

// drawPath walks the tree from node following generated choices and returns the path to a node.
func drawPath(t *rapid.T, node any, prefix []any, minDepth int) []any {
	path := append([]any{}, prefix...)
	for depth := 0; ; depth++ {
		switch x := node.(type) {
		case map[string]any:
			if len(x) == 0 || (depth >= minDepth && rapid.IntRange(0, 3).Draw(t, "stop") == 0) {
				return path
			}
			ks := sortedKeys(x)
			k := ks[rapid.IntRange(0, len(ks)-1).Draw(t, "key")]
			path = append(path, k)
			node = x[k]
		case []any:
			if len(x) == 0 || (depth >= minDepth && rapid.IntRange(0, 3).Draw(t, "stop") == 0) {
				return path
			}
			i := rapid.IntRange(0, len(x)-1).Draw(t, "index")
			path = append(path, float64(i))
			node = x[i]
		default:
			return path
		}
	}
}

func getAt(doc any, path []any) (any, bool) {
	node := doc
	for _, st := range path {
		switch x := node.(type) {
		case map[string]any:
			k, ok := st.(string)
			if !ok {
				return nil, false
			}
			node, ok = x[k]
			if !ok {
				return nil, false
			}
		case []any:
			f, ok := st.(float64)
			if !ok || int(f) < 0 || int(f) >= len(x) {
				return nil, false
			}
			node = x[int(f)]
		default:
			return nil, false
		}
	}
	return node, true
}

// applyMut returns the mutated document (doc is modified in place where possible).
func applyMut(doc any, m Mut) any {
	if len(m.Path) == 0 {
		switch m.Op {
		case "set":
			return parseDoc(m.Val)
		case "append":
			if arr, ok := doc.([]any); ok {
				return append(arr, parseDoc(m.Val))
			}
		}
		return doc
	}
	parent, ok := getAt(doc, m.Path[:len(m.Path)-1])
	if !ok {
		return doc
	}
	last := m.Path[len(m.Path)-1]
	setChild := func(v any) {
		switch p := parent.(type) {
		case map[string]any:
			if k, ok := last.(string); ok {
				p[k] = v
			}
		case []any:
			if f, ok := last.(float64); ok && int(f) >= 0 && int(f) < len(p) {
				p[int(f)] = v
			}
		}
	}
	switch m.Op {
	case "delete":
		switch p := parent.(type) {
		case map[string]any:
			if k, ok := last.(string); ok {
				delete(p, k)
			}
		case []any:
			if f, ok := last.(float64); ok && int(f) >= 0 && int(f) < len(p) {
				np := append(append([]any{}, p[:int(f)]...), p[int(f)+1:]...)
				// replace the array in the grandparent
				return applyMut(doc, Mut{Path: m.Path[:len(m.Path)-1], Op: "set", Val: mustJSON(np)})
			}
		}
	case "set":
		setChild(parseDoc(m.Val))
	case "append":
		if cur, ok := getAt(doc, m.Path); ok {
			if arr, ok := cur.([]any); ok {
				setChild(append(arr, parseDoc(m.Val)))
			}
		}
	}
	return doc
}

func mustJSON(v any) json.RawMessage {
	b, err := json.Marshal(v)
	if err != nil {
		panic(err)
	}
	return b
}

func buildDoc(c DocCase) []byte {
	if c.Raw != "" {
		return []byte(c.Raw)
	}
	loadDocs()
	doc := parseDoc(docsBytes[c.Base])
	for _, m := range c.Muts {
		doc = applyMut(doc, m)
	}
	return mustJSON(doc)
}

func genC16(t *rapid.T) DocCase {
	loadDocs()
	c := DocCase{Base: rapid.SampledFrom(docNames).Draw(t, "base")}
	doc := parseDoc(docsBytes[c.Base])
	n := rapid.IntRange(0, 4).Draw(t, "mutations")
	// focus: all mutations of the case go into one sub tree (a tile matrix, one of its variable matrix width entries, the
	// bounding box, the crs), so that two cooperating changes in one object are generated as well
	var focus []any
	if top, ok := doc.(map[string]any); ok && n >= 2 && rapid.IntRange(0, 2).Draw(t, "focused") == 0 {
		switch rapid.IntRange(0, 3).Draw(t, "focusKind") {
		case 0, 1:
			if tms, ok := top["tileMatrices"].([]any); ok && len(tms) > 0 {
				i := rapid.IntRange(0, len(tms)-1).Draw(t, "focusTM")
				focus = []any{"tileMatrices", float64(i)}
				if tm, ok := tms[i].(map[string]any); ok {
					if vs, ok := tm["variableMatrixWidths"].([]any); ok && len(vs) > 0 && rapid.Bool().Draw(t, "focusVMW") {
						focus = append(focus, "variableMatrixWidths", float64(rapid.IntRange(0, len(vs)-1).Draw(t, "vmw")))
					}
				}
			}
		case 2:
			if _, ok := top["boundingBox"]; ok {
				focus = []any{"boundingBox"}
			}
		case 3:
			focus = []any{"crs"}
		}
	}
	for k := 0; k < n; k++ {
		var m Mut
		top, _ := doc.(map[string]any)
		target := rapid.IntRange(0, 11).Draw(t, "target")
		var prefix []any
		var sub any = doc
		if focus != nil {
			if cur, ok := getAt(doc, focus); ok {
				prefix, sub, target = focus, cur, 99
			}
		}
		switch {
		case target == 10 && top != nil: // the other spelling of the same crs: "uri" <-> {"uri": "uri"}
			where := []any{"crs"}
			if _, ok := top["boundingBox"].(map[string]any); ok && rapid.Bool().Draw(t, "bboxCrs") {
				where = []any{"boundingBox", "crs"}
			}
			if cur, ok := getAt(doc, where); ok {
				switch v := cur.(type) {
				case string:
					m = Mut{Path: where, Op: "set", Val: mustJSON(map[string]any{"uri": v})}
				case map[string]any:
					if u, ok := v["uri"].(string); ok {
						m = Mut{Path: where, Op: "set", Val: mustJSON(u)}
					}
				}
			}
		case target < 5 && top != nil: // a tile matrix field
			if tms, ok := top["tileMatrices"].([]any); ok && len(tms) > 0 {
				i := rapid.IntRange(0, len(tms)-1).Draw(t, "tm")
				prefix, sub = []any{"tileMatrices", float64(i)}, tms[i]
			}
		case target == 5 && top != nil:
			if v, ok := top["crs"]; ok && rapid.Bool().Draw(t, "intoCrs") {
				prefix, sub = []any{"crs"}, v
			} else {
				m = Mut{Path: []any{"crs"}, Op: "set", Val: json.RawMessage(rapid.SampledFrom(crsForms).Draw(t, "crsForm"))}
			}
		case target == 6 && top != nil:
			if v, ok := top["boundingBox"]; ok {
				prefix, sub = []any{"boundingBox"}, v
			}
		case target == 11 && top != nil: // add an optional member that the document does not have (or overwrite it), empty values included
			if tms, ok := top["tileMatrices"].([]any); ok && len(tms) > 0 && rapid.IntRange(0, 3).Draw(t, "addToMatrix") > 0 {
				i := rapid.IntRange(0, len(tms)-1).Draw(t, "tm")
				kv := rapid.SampledFrom(optionalMatrixMembers).Draw(t, "member")
				m = Mut{Path: []any{"tileMatrices", float64(i), kv[0]}, Op: "set", Val: json.RawMessage(kv[1])}
			} else {
				kv := rapid.SampledFrom(optionalTopMembers).Draw(t, "member")
				m = Mut{Path: []any{kv[0]}, Op: "set", Val: json.RawMessage(kv[1])}
			}
		case target == 7 && top != nil: // duplicate a tile matrix id
			if tms, ok := top["tileMatrices"].([]any); ok && len(tms) > 1 {
				i, j := rapid.IntRange(0, len(tms)-1).Draw(t, "i"), rapid.IntRange(0, len(tms)-1).Draw(t, "j")
				if tj, ok := tms[j].(map[string]any); ok {
					m = Mut{Path: []any{"tileMatrices", float64(i), "id"}, Op: "set", Val: mustJSON(tj["id"])}
				}
			}
		}
		if m.Op == "" {
			minDepth := 0
			if len(prefix) > 0 {
				minDepth = 1
			}
			m.Path = drawPath(t, sub, prefix, minDepth)
			cur, _ := getAt(doc, m.Path)
			switch op := rapid.IntRange(0, 5).Draw(t, "op"); {
			case op == 0:
				m.Op = "delete"
			case op == 1:
				if _, isArr := cur.([]any); isArr {
					m.Op, m.Val = "append", json.RawMessage(rapid.SampledFrom(replacementValues).Draw(t, "elem"))
				} else {
					m.Op = "delete"
				}
			default:
				m.Op, m.Val = "set", json.RawMessage(rapid.SampledFrom(replacementValues).Draw(t, "val"))
				if len(m.Path) > 0 && m.Path[len(m.Path)-1] == "id" && rapid.Bool().Draw(t, "extremeID") {
					m.Val = json.RawMessage(rapid.SampledFrom(extremeIDs).Draw(t, "idVal")) // ids at the ends of the int64 range
				}
			}
		}
		c.Muts = append(c.Muts, m)
		doc = applyMut(doc, m)
	}
	return c
}

// mustReject is the independent predicate over the JSON tree.
func mustReject(doc any) (bool, string) {
	top, ok := doc.(map[string]any)
	if !ok {
		return true, "document is not an object"
	}
	switch crs := top["crs"].(type) {
	case string, map[string]any:
		_ = crs
	default:
		return true, "crs missing, null or of the wrong JSON type"
	}
	tms, ok := top["tileMatrices"].([]any)
	if !ok {
		return true, "tileMatrices missing, null or not an array"
	}
	if len(tms) == 0 {
		return true, "tileMatrices empty"
	}
	for i, e := range tms {
		tm, ok := e.(map[string]any)
		if !ok {
			return true, fmt.Sprintf("tileMatrices[%d] is not an object", i)
		}
		id, ok := tm["id"].(string)
		if !ok {
			return true, fmt.Sprintf("tileMatrices[%d].id missing or not a string", i)
		}
		if _, err := strconv.ParseInt(id, 10, 64); err != nil {
			return true, fmt.Sprintf("tileMatrices[%d].id %q is not an integer", i, id)
		}
		for _, k := range []string{"scaleDenominator", "cellSize", "tileWidth", "tileHeight", "matrixWidth", "matrixHeight"} {
			f, ok := tm[k].(float64)
			if !ok {
				return true, fmt.Sprintf("tileMatrices[%d].%s missing or not a number", i, k)
			}
			if f <= 0 {
				return true, fmt.Sprintf("tileMatrices[%d].%s = %v is not positive", i, k, f)
			}
		}
		po, ok := tm["pointOfOrigin"].([]any)
		if !ok {
			return true, fmt.Sprintf("tileMatrices[%d].pointOfOrigin missing or not an array", i)
		}
		if len(po) != 2 {
			return true, fmt.Sprintf("tileMatrices[%d].pointOfOrigin has %d elements", i, len(po))
		}
		for _, v := range po {
			if _, ok := v.(float64); !ok {
				return true, fmt.Sprintf("tileMatrices[%d].pointOfOrigin holds a non-number", i)
			}
		}
	}
	return false, ""
}

func decodeTMS(b []byte) (tms *tms20.TileMatrixSet, err error, pan any) {
	defer func() { pan = recover() }()
	var x tms20.TileMatrixSet
	err = json.Unmarshal(b, &x)
	return &x, err, nil
}

func encodeTMS(x *tms20.TileMatrixSet) (b []byte, err error, pan any) {
	defer func() { pan = recover() }()
	b, err = json.Marshal(x)
	return b, err, nil
}

func tooBig(v any) bool {
	switch x := v.(type) {
	case float64:
		return math.Abs(x) > 1<<53
	case []any:
		for _, e := range x {
			if tooBig(e) {
				return true
			}
		}
	case map[string]any:
		for _, e := range x {
			if tooBig(e) {
				return true
			}
		}
	}
	return false
}

func oracleC16(c DocCase) (o report.Outcome) {
	b := buildDoc(c)
	var doc any
	if !utf8.Valid(b) {
		// not a JSON text at all (RFC 8259: UTF-8); only the no-panic clause applies
		if _, _, pan := decodeTMS(b); pan != nil {
			o.Failf([]string{"panic"}, "decoding panicked on %.300q: %v", b, pan)
		}
		o.Label("not valid UTF-8")
		return o
	}
	if err := json.Unmarshal(b, &doc); err != nil {
		// not JSON at all (fuzz): only the no-panic clause applies
		_, err2, pan := decodeTMS(b)
		if pan != nil {
			o.Failf([]string{"panic"}, "decoding panicked on %.300q: %v", b, pan)
		} else if err2 == nil {
			o.Failf([]string{"accepts-garbage"}, "decoding accepted a text that is not JSON: %.300q", b)
		}
		return o
	}
	if tooBig(doc) {
		o.OutOfScope = true
		o.Label("number beyond 2^53")
		return o
	}
	o.Key = fmt.Sprint(c.Base, string(mustJSON(c.Muts)), c.Raw)
	o.Label("mutations=%d", len(c.Muts))
	reject, why := mustReject(doc)
	x, err, pan := decodeTMS(b)
	if h := fnv.New32a(); true { // (one case in three, decided by the content: the file route)
		h.Write(b)
		if h.Sum32()%3 == 0 {
			if why := fileRoute(b, x, err, pan); why != "" {
				o.Failf([]string{"file-loader"}, "%s; document (%s + %s): %.400s", why, c.Base, mustJSON(c.Muts), b)
				return o
			}
			o.Label("file route compared")
		}
	}
	if pan != nil {
		o.Failf([]string{"panic"}, "decoding panicked: %v; document (%s + %s): %.600s", pan, c.Base, mustJSON(c.Muts), b)
		return o
	}
	if err != nil {
		o.Label("rejected")
		if len(c.Muts) == 0 && c.Raw == "" {
			o.Failf([]string{"builtin-rejected"}, "the shipped document %s is rejected: %v", c.Base, err)
		}
		if reject {
			o.NonTrivial = len(c.Muts) > 0
			o.Label("must-reject class")
		}
		return o
	}
	o.Label("accepted")
	if reject {
		o.Failf([]string{"accepts-malformed"}, "decoding accepted a malformed document (%s); mutations %s of %s", why, mustJSON(c.Muts), c.Base)
		return o
	}
	if len(c.Muts) > 0 || c.Raw != "" {
		o.NonTrivial = true
	}
	e1, err, pan := encodeTMS(x)
	if pan != nil || err != nil {
		o.Failf([]string{"encode"}, "encoding a decoded document failed: err %v panic %v; mutations %s of %s", err, pan, mustJSON(c.Muts), c.Base)
		return o
	}
	x2, err, pan := decodeTMS(e1)
	if pan != nil || err != nil {
		o.Failf([]string{"redecode"}, "decoding the encoded document failed: err %v panic %v; mutations %s of %s; encoded %.600s", err, pan, mustJSON(c.Muts), c.Base, e1)
		return o
	}
	if why := semanticDiff(reflect.ValueOf(x), reflect.ValueOf(x2), "x"); why != "" {
		o.Failf([]string{"roundtrip-value"}, "decode(encode(x)) differs from x at %s; mutations %s of %s; encoded %.600s", why, mustJSON(c.Muts), c.Base, e1)
		return o
	}
	if why := behaviourDiff(x, x2); why != "" {
		o.Failf([]string{"roundtrip-behaviour"}, "decode(encode(x)) does not behave like x: %s; mutations %s of %s; encoded %.600s", why, mustJSON(c.Muts), c.Base, e1)
		return o
	}
	e2, err, pan := encodeTMS(x2)
	if pan != nil || err != nil || !bytes.Equal(e1, e2) {
		o.Failf([]string{"roundtrip-bytes"}, "the encoding is not stable: err %v panic %v; first %.300s second %.300s", err, pan, e1, e2)
		return o
	}
	if why := checkRetained(c.Base); why != "" {
		o.Failf([]string{"shared-state"}, "%s; it happened after decoding %s + %s", why, c.Base, mustJSON(c.Muts))
		return o
	}
	if len(c.Muts) == 0 && c.Raw == "" {
		var back any
		_ = json.Unmarshal(e1, &back)
		if !reflect.DeepEqual(doc, back) {
			o.Failf([]string{"builtin-semantic"}, "re-encoding the shipped document %s is not semantically equal to the original: %s", c.Base, jsonDiff("", doc, back))
		}
	}
	return o
}

var (
	c16DirOnce sync.Once
	c16Dir     string
	c16Seq     int64
)

// fileRoute: tms20.LoadJSONTileMatrixSet on a file holding exactly these bytes must agree with decoding the bytes (same
// verdict, same value), and a file holding the document followed by anything but white space is a malformed document: both
// routes must refuse it.
func fileRoute(b []byte, x *tms20.TileMatrixSet, err error, pan any) string {
	c16DirOnce.Do(func() { c16Dir = scratchDir("c16") })
	path := filepath.Join(c16Dir, fmt.Sprintf("doc-%d.json", atomic.AddInt64(&c16Seq, 1)))
	defer os.Remove(path)
	load := func(content []byte) (v tms20.TileMatrixSet, lerr error, lpan any) {
		defer func() { lpan = recover() }()
		if werr := os.WriteFile(path, content, 0o644); werr != nil {
			panic("harness: " + werr.Error())
		}
		v, lerr = tms20.LoadJSONTileMatrixSet(path)
		return v, lerr, nil
	}
	fv, ferr, fpan := load(b)
	if (fpan != nil) != (pan != nil) || (ferr != nil) != (err != nil) {
		return fmt.Sprintf("LoadJSONTileMatrixSet on a file with these bytes: error %v panic %v, decoding the bytes: error %v panic %v", ferr, fpan, err, pan)
	}
	if err == nil && pan == nil {
		if why := semanticDiff(reflect.ValueOf(x), reflect.ValueOf(&fv), "x"); why != "" {
			return "LoadJSONTileMatrixSet returns another value than decoding the same bytes, at " + why
		}
		tails := []string{"\n{}", "]", " 0", "\n<<<<<<< HEAD\n", " null", "\n" + string(b), "}"}
		tail := tails[len(b)%len(tails)]
		bt := append(append([]byte{}, b...), tail...)
		if _, merr, mpan := decodeTMS(bt); merr == nil && mpan == nil {
			return fmt.Sprintf("decoding accepts the document followed by %q", tail)
		}
		if _, terr, tpan := load(bt); terr == nil && tpan == nil {
			return fmt.Sprintf("LoadJSONTileMatrixSet accepts a file holding the document followed by %q", tail)
		}
	}
	return ""
}

// retained values: every shipped document is decoded once and kept together with its encoding. The encoding of a value that
// nobody touched must not change because other documents were decoded in between ("a stable encoding").
var (
	retainedMu  sync.Mutex
	retainedVal = map[string]*tms20.TileMatrixSet{}
	retainedEnc = map[string][]byte{}
)

func checkRetained(justUsed string) string {
	retainedMu.Lock()
	defer retainedMu.Unlock()
	loadDocs()
	why := ""
	for _, n := range docNames {
		if v, ok := retainedVal[n]; ok {
			if enc, err, pan := encodeTMS(v); err != nil || pan != nil || !bytes.Equal(enc, retainedEnc[n]) {
				why = fmt.Sprintf("the encoding of the value decoded earlier from the shipped document %s changed although the value was not touched: first %.200s, now %.200s (err %v panic %v)", n, retainedEnc[n], enc, err, pan)
				delete(retainedVal, n) // refresh, so that only the case that disturbs it is blamed
			}
		}
	}
	for _, n := range []string{justUsed} {
		if _, ok := retainedVal[n]; !ok && n != "" {
			if v, err, pan := decodeTMS(docsBytes[n]); err == nil && pan == nil {
				if enc, err, pan := encodeTMS(v); err == nil && pan == nil {
					retainedVal[n], retainedEnc[n] = v, enc
				}
			}
		}
	}
	return why
}

// semanticDiff compares two decoded values: like reflect.DeepEqual, except that a nil and an empty slice or map are the same
// value (a representation detail of the decoder: "keywords": [] and no keywords). It returns the path of the first difference.
func semanticDiff(a, b reflect.Value, path string) string {
	if a.IsValid() != b.IsValid() {
		return path + " (one side absent)"
	}
	if !a.IsValid() {
		return ""
	}
	if a.Type() != b.Type() {
		return fmt.Sprintf("%s (types %v and %v)", path, a.Type(), b.Type())
	}
	switch a.Kind() {
	case reflect.Ptr, reflect.Interface:
		if a.IsNil() || b.IsNil() {
			if a.IsNil() != b.IsNil() {
				return path + " (nil on one side)"
			}
			return ""
		}
		return semanticDiff(a.Elem(), b.Elem(), path)
	case reflect.Struct:
		for i := 0; i < a.NumField(); i++ {
			if d := semanticDiff(a.Field(i), b.Field(i), path+"."+a.Type().Field(i).Name); d != "" {
				return d
			}
		}
		return ""
	case reflect.Slice, reflect.Array:
		if a.Len() != b.Len() {
			return fmt.Sprintf("%s (lengths %d and %d)", path, a.Len(), b.Len())
		}
		for i := 0; i < a.Len(); i++ {
			if d := semanticDiff(a.Index(i), b.Index(i), fmt.Sprintf("%s[%d]", path, i)); d != "" {
				return d
			}
		}
		return ""
	case reflect.Map:
		if a.Len() != b.Len() {
			return fmt.Sprintf("%s (sizes %d and %d)", path, a.Len(), b.Len())
		}
		for _, k := range a.MapKeys() {
			bv := b.MapIndex(k)
			if !bv.IsValid() {
				return fmt.Sprintf("%s[%v] (missing on one side)", path, k)
			}
			if d := semanticDiff(a.MapIndex(k), bv, fmt.Sprintf("%s[%v]", path, k)); d != "" {
				return d
			}
		}
		return ""
	case reflect.String:
		if a.String() != b.String() {
			return fmt.Sprintf("%s (%q and %q)", path, a.String(), b.String())
		}
	case reflect.Bool:
		if a.Bool() != b.Bool() {
			return path
		}
	case reflect.Int, reflect.Int8, reflect.Int16, reflect.Int32, reflect.Int64:
		if a.Int() != b.Int() {
			return fmt.Sprintf("%s (%d and %d)", path, a.Int(), b.Int())
		}
	case reflect.Uint, reflect.Uint8, reflect.Uint16, reflect.Uint32, reflect.Uint64:
		if a.Uint() != b.Uint() {
			return fmt.Sprintf("%s (%d and %d)", path, a.Uint(), b.Uint())
		}
	case reflect.Float32, reflect.Float64:
		if a.Float() != b.Float() && !(a.Float() != a.Float() && b.Float() != b.Float()) {
			return fmt.Sprintf("%s (%v and %v)", path, a.Float(), b.Float())
		}
	default:
		panic("harness: semanticDiff: kind " + a.Kind().String())
	}
	return ""
}

// behaviourDiff: the two values must be indistinguishable through the API as well (same result, or both fail, per tile matrix).
func behaviourDiff(x, x2 *tms20.TileMatrixSet) string {
	call := func(t *tms20.TileMatrixSet, id int) (out string) {
		defer func() {
			if e := recover(); e != nil {
				out = fmt.Sprintf("panic: %v", e)
			}
		}()
		bl, tr, err := t.MatrixBoundingBox(id)
		if err != nil {
			return "error: " + err.Error()
		}
		tile, ok := t.FromNative(uint(id), [2]float64{(bl[0] + tr[0]) / 2, (bl[1] + tr[1]) / 2})
		return fmt.Sprint(bl, tr, tile, ok)
	}
	ids := make([]int, 0, len(x.TileMatrices))
	for id := range x.TileMatrices {
		ids = append(ids, id)
	}
	sort.Ints(ids)
	for _, id := range ids {
		if a, b := call(x, id), call(x2, id); a != b {
			return fmt.Sprintf("tile matrix %d: bounding box / tile under its centre: %s versus %s", id, a, b)
		}
	}
	return ""
}

func jsonDiff(p string, a, b any) string {
	am, ok1 := a.(map[string]any)
	bm, ok2 := b.(map[string]any)
	if ok1 && ok2 {
		var sb strings.Builder
		for _, k := range sortedKeys(am) {
			if _, ok := bm[k]; !ok {
				fmt.Fprintf(&sb, "-%s.%s ", p, k)
			} else {
				sb.WriteString(jsonDiff(p+"."+k, am[k], bm[k]))
			}
		}
		for _, k := range sortedKeys(bm) {
			if _, ok := am[k]; !ok {
				fmt.Fprintf(&sb, "+%s.%s ", p, k)
			}
		}
		return sb.String()
	}
	al, ok1 := a.([]any)
	bl, ok2 := b.([]any)
	if ok1 && ok2 && len(al) == len(bl) {
		var sb strings.Builder
		for i := range al {
			sb.WriteString(jsonDiff(fmt.Sprintf("%s[%d]", p, i), al[i], bl[i]))
		}
		return sb.String()
	}
	if !reflect.DeepEqual(a, b) {
		return fmt.Sprintf("~%s:%.40v->%.40v ", p, a, b)
	}
	return ""
}

func TestC16(t *testing.T) { report.Run(t, specC16, genC16, oracleC16) }

// every shipped document, unmutated (exhaustive for clause (c))
var specC16Docs = report.Spec{Property: "C16", Check: "C16Docs", Exhaustive: true,
	Rule: "exhaustive: each of the 15 shipped documents unmutated through the same oracle (clauses a, b, c). Non-trivial: all (each exercises the full round trip)."}

func TestC16Docs(t *testing.T) {
	loadDocs()
	report.RunEnum(t, specC16Docs, func(yield func(DocCase) bool) {
		for _, n := range docNames {
			if !yield(DocCase{Base: n}) {
				return
			}
		}
	}, func(c DocCase) report.Outcome {
		o := oracleC16(c)
		o.NonTrivial = true
		return o
	})
}
