package checks

import (
	"fmt"
	"testing"

	"pgregory.net/rapid"

	"verifharness/gen"
	"verifharness/kernel"
	"verifharness/report"
)

var specC01 = report.Spec{Property: "C01", Check: "C01",
	Rule: "valid polygons by construction (edge-split growth, star, comb, zig-zag, polyomino outlines, with 0-3 holes; lattices pixel/4 (ties), /3, /7, /8, optional sub-lattice offset) " +
		"x grid (synthetic dyadic incl. non-zero origin, tile widths 1/2/4, both corners of origin; NetherlandsRDNewQuad; WebMercatorQuad) x 1-4 ids in any order x keep/reverse flags; " +
		"oracle: no two output edges of one tile matrix cross properly (exact orientation tests in pixel index space). " +
		"Non-trivial: at a requested level the polygon has an exact tie with the pixel grid (vertex on a border, edge through a corner or along a border) or its routed boundary passes a pixel centre twice or more, and geometry was returned. Distinct by case content.",
	Assumptions: []string{"validity of the input is decided by the harness' exact predicates on the tool's fixed point reading of the floats",
		"pixel indices of returned coordinates are recovered with the harness' grid model (extent from tms20.MatrixBoundingBox)"}}

func genC01(t *rapid.T) SnapCase {
	return drawValidCase(t, validOpts{maxHoles: 3, collapseBias: rapid.IntRange(0, 3).Draw(t, "bias") == 0}, gen.AnyGrid, 4)
}

// crossingIn looks for a proper crossing among the output edges of one tile matrix.
func crossingIn(es []pedge) (int, int, bool) {
	for i := range es {
		for j := i + 1; j < len(es); j++ {
			if kernel.SegsCross(es[i].a, es[i].b, es[j].a, es[j].b) {
				return i, j, true
			}
		}
	}
	return 0, 0, false
}

func oracleC01(c SnapCase) (o report.Outcome) {
	a := analyse(c)
	if !scopeValid(a, &o) {
		return o
	}
	res := snapSafe(c)
	if res.Panic != nil {
		o.OutOfScope = true
		o.Label("snapping panicked (decided by C06/C09)")
		return o
	}
	returned := false
	for _, id := range c.IDs {
		li := a.level(id)
		o.Label(visitsClass(li.maxVisits))
		if li.ties.Any() {
			o.Label("tie")
		}
		polys := res.Out[id]
		if len(polys) > 0 {
			returned = true
			if li.ties.Any() || li.maxVisits >= 2 {
				o.NonTrivial = true
			}
		}
		es := outEdges(li.lev, polys)
		if i, j, bad := crossingIn(es); bad {
			var tags []string
			if !kernel.Explained(li.chains, es[i].a, es[i].b) || !kernel.Explained(li.chains, es[j].a, es[j].b) {
				tags = append(tags, "invented-edge")
			}
			if li.maxVisits >= 3 {
				tags = append(tags, "maxVisits>=3")
			}
			o.Failf(tags, "tile matrix %d: output edges %v-%v and %v-%v (pixel indices) cross; routed boundary %v; output %v", id, es[i].a, es[i].b, es[j].a, es[j].b, li.chains, fmt.Sprint(polys))
		}
	}
	if !returned {
		o.NonTrivial = false
	}
	return o
}

func TestC01(t *testing.T) { report.Run(t, specC01, genC01, oracleC01) }

var specC01Far = report.Spec{Property: "C01", Check: "C01Far",
	Rule:        "pinched, nested and annulus shapes and (half of the cases) collapse-prone templates on NetherlandsRDNewQuad, WebMercatorQuad, EuropeanETRS89_LAEAQuad, UPSArcticWGS84Quad and NZTM2000Quad at their four deepest addressable tile matrices, placed anywhere incl. the strip behind the last addressable pixel; oracle, scope and non-trivial rule of C01.",
	Assumptions: specC01.Assumptions}

func TestC01Far(t *testing.T) {
	report.Run(t, specC01Far, func(t *rapid.T) SnapCase { return drawFarCase(t, true) }, oracleC01)
}
