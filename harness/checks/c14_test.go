package checks

import (
	"bytes"
	"fmt"
	"math"
	"os"
	"os/exec"
	"sort"
	"strconv"
	"strings"
	"testing"

	"github.com/go-spatial/geom"
	"github.com/pdok/texel/pointindex"
	"github.com/pdok/texel/snap"
	"github.com/pdok/texel/tms20"
	"pgregory.net/rapid"

	"verifharness/gen"
	"verifharness/kernel"
	"verifharness/report"
)

// trueQuadtree is the independent predicate over the document numbers.
func trueQuadtree(tms tms20.TileMatrixSet) (bool, string) {
	ids := make([]int, 0, len(tms.TileMatrices))
	for id := range tms.TileMatrices {
		ids = append(ids, id)
	}
	sort.Ints(ids)
	if len(ids) == 0 || ids[0] != 0 {
		return false, "ids do not start at 0"
	}
	for i, id := range ids {
		if id != i {
			return false, fmt.Sprintf("ids are not consecutive at %d", id)
		}
		tm := tms.TileMatrices[id]
		if tm.ID != strconv.Itoa(id) {
			return false, fmt.Sprintf("id string %q is not the index %d", tm.ID, id)
		}
		if tm.MatrixWidth != tm.MatrixHeight {
			return false, fmt.Sprintf("matrix %d is not square", id)
		}
		if tm.TileWidth != tm.TileHeight {
			return false, fmt.Sprintf("tiles of matrix %d are not square", id)
		}
		if len(tm.VariableMatrixWidths) > 0 {
			return false, fmt.Sprintf("matrix %d has variable widths", id)
		}
		if tm.PointOfOrigin == nil {
			return false, "no origin"
		}
		if i > 0 {
			pr := tms.TileMatrices[id-1]
			if *tm.PointOfOrigin != *pr.PointOfOrigin {
				return false, fmt.Sprintf("origin of matrix %d differs", id)
			}
			if tm.CornerOfOrigin != pr.CornerOfOrigin {
				return false, fmt.Sprintf("corner of matrix %d differs", id)
			}
			if tm.TileWidth != pr.TileWidth {
				return false, fmt.Sprintf("tile size of matrix %d differs", id)
			}
			if tm.MatrixWidth != 2*pr.MatrixWidth {
				return false, fmt.Sprintf("matrix %d does not double", id)
			}
			if r := pr.CellSize / tm.CellSize; r < 1.99 || r > 2.01 {
				return false, fmt.Sprintf("cell size of matrix %d does not halve (ratio %v)", id, r)
			}
		}
	}
	return true, ""
}

func cloneTMS(t tms20.TileMatrixSet) tms20.TileMatrixSet {
	c := t
	c.TileMatrices = map[int]tms20.TileMatrix{}
	for k, v := range t.TileMatrices {
		if v.PointOfOrigin != nil {
			p := *v.PointOfOrigin
			v.PointOfOrigin = &p
		}
		c.TileMatrices[k] = v
	}
	return c
}

func maxIDOf(t tms20.TileMatrixSet) int {
	m := math.MinInt
	for id := range t.TileMatrices {
		m = max(m, id)
	}
	return m
}

// ---------------------------------------------------------------------------------------------------------------
// (a) the built-in sets, through the real binary and through the library

type SetCase struct {
	Set string `json:"set"`
}

var specC14Sets = report.Spec{Property: "C14", Check: "C14Sets", Exhaustive: true,
	Rule: "exhaustive: all 14 built-in sets. Each through the REAL BINARY (texel -s <missing file> -t x -tms <id> -z [deepest id] and seven more id lists (shallowest, second, middle id alone; lists in ascending and descending order): outcome in {validation error, passed validation (= 'error opening source GeoPackage'), Go panic}) and through the library (IsQuadTree, DeviationStats with panics caught). " +
		"Oracle: never a panic; binary and library agree; accepted => the independent true-quadtree predicate over the document numbers holds, rejected => it does not; for every accepted set and every tile matrix id with pixel level <= 32 the pixel pitch measured from actual snapping " +
		"(a triangle with legs of 8 pixels, difference of the returned centres / 8) equals cellSize/16 within 1e-6 relative plus the reported deviation. Non-trivial: all (each set exercises a different branch of the validation).",
	Assumptions: []string{"the binary is built by the driver from /repo's working tree with -tags verif"}}

func cliOutcome(set string, deepest int) (string, string) { return cliOutcomeIDs(set, []int{deepest}) }

func cliOutcomeIDs(set string, ids []int) (string, string) {
	bin := os.Getenv("VERIF_TEXEL_BIN")
	if bin == "" {
		return "no-binary", ""
	}
	scratch := os.Getenv("VERIF_SCRATCH")
	if scratch == "" {
		scratch = os.TempDir()
	}
	cmd := exec.Command(bin, "-s", scratch+"/does-not-exist.gpkg", "-t", scratch+"/c14-target.gpkg", "-tms", set, "-z", strings.ReplaceAll(fmt.Sprint(ids), " ", ","))
	var buf bytes.Buffer
	cmd.Stdout, cmd.Stderr = &buf, &buf
	_ = cmd.Run()
	out := buf.String()
	switch {
	case strings.Contains(out, "panic:") || strings.Contains(out, "goroutine "):
		return "panic", out
	case strings.Contains(out, "error opening source GeoPackage"):
		return "accepted", out
	default:
		return "rejected", out
	}
}

func oracleC14Sets(c SetCase) (o report.Outcome) {
	o.NonTrivial = true
	o.Key = c.Set
	tms, err := tms20.LoadEmbeddedTileMatrixSet(c.Set)
	if err != nil {
		o.Failf([]string{"load"}, "cannot load %s: %v", c.Set, err)
		return o
	}
	deepest := maxIDOf(tms)
	libErr := validationAccepts(tms, deepest)
	lib := "accepted"
	if libErr != nil {
		lib = "rejected"
		if strings.HasPrefix(libErr.Error(), "PANIC") {
			lib = "panic"
		}
	}
	o.Label("library: %s", lib)
	if lib == "panic" {
		o.Failf([]string{"panic"}, "validating %s through the library panics: %v", c.Set, libErr)
		return o
	}
	cli, out := cliOutcome(c.Set, deepest)
	o.Label("binary: %s", cli)
	if cli == "no-binary" {
		panic("harness: VERIF_TEXEL_BIN not set; run through ./check")
	}
	if cli == "panic" {
		o.Failf([]string{"panic", "cli"}, "texel -tms %s -z [%d] dies with a Go panic instead of a validation error: %.600s", c.Set, deepest, out)
		return o
	}
	if cli != lib {
		o.Failf([]string{"cli-vs-library"}, "%s: the binary says %s, the library says %s (%v); binary output: %.400s", c.Set, cli, lib, libErr, out)
		return o
	}
	// the verdict is about the set, not about the tile matrices that happen to be requested: every id alone (the shallowest and the
	// deepest ones, a middle one) and lists in either order give the same verdict
	var all []int
	for id, tm := range tms.TileMatrices {
		if len(tm.VariableMatrixWidths) == 0 || lib == "rejected" {
			all = append(all, id)
		}
	}
	sort.Ints(all)
	if n := len(all); n > 0 {
		lists := [][]int{{all[0]}, {all[n/2]}, {all[n-1], all[0]}, {all[0], all[n-1]}, {all[n/2], all[n-1], all[0]}}
		if n > 1 {
			lists = append(lists, []int{all[1]}, []int{all[1], all[0]})
		}
		for _, ids := range lists {
			v, out := cliOutcomeIDs(c.Set, ids)
			if v != cli {
				o.Failf([]string{"cli-ids"}, "%s: texel -z %v says %s, texel -z [%d] says %s: the verdict depends on the requested tile matrices; output: %.400s", c.Set, ids, v, deepest, cli, out)
				return o
			}
		}
	}
	isQT, why := trueQuadtree(tms)
	if lib == "accepted" && !isQT {
		o.Failf([]string{"accepts-non-quadtree"}, "%s passes validation but is not a true quadtree: %s", c.Set, why)
		return o
	}
	if lib == "rejected" && isQT {
		o.Failf([]string{"rejects-quadtree"}, "%s is a true quadtree but is rejected: %v", c.Set, libErr)
		return o
	}
	if lib != "accepted" {
		return o
	}
	// pixel pitch from actual snapping
	g, err := kernel.NewGrid(c.Set, tms)
	if err != nil {
		o.Failf([]string{"grid"}, "%v", err)
		return o
	}
	for id := 0; id <= min(deepest, maxAddressableID(g)); id++ {
		tm := tms.TileMatrices[id]
		want := tm.CellSize / 16
		_, dev, _, err := pointindex.DeviationStats(tms, id)
		if err != nil {
			o.Failf([]string{"deviation"}, "%v", err)
			return o
		}
		lev := kernel.Leveled{G: g, Level: g.LevelOf(id), Deepest: g.LevelOf(id)}
		size := int64(1) << lev.Level
		base := P{X: size/2 - 4, Y: size/2 - 4}
		if size < 16 {
			base = P{}
		}
		cen := func(p P) [2]float64 {
			ce := lev.Centre(p)
			return [2]float64{kernel.FromFixed(ce.X), kernel.FromFixed(ce.Y)}
		}
		k := int64(8)
		poly := geom.Polygon{{cen(base), cen(P{X: base.X + k, Y: base.Y}), cen(P{X: base.X, Y: base.Y + k})}}
		var res map[int][]geom.Polygon
		var pan any
		func() {
			defer func() { pan = recover() }()
			res = snap.SnapPolygon(poly, tms, []int{id}, snap.Config{})
		}()
		if pan != nil || len(res[id]) != 1 || len(res[id][0]) != 1 || len(res[id][0][0]) != 3 {
			o.Failf([]string{"pitch"}, "%s id %d: snapping a triangle with legs of 8 pixels did not return a triangle: %v (panic %v)", c.Set, id, res, pan)
			return o
		}
		xs, ys := []float64{}, []float64{}
		for _, v := range res[id][0][0] {
			xs, ys = append(xs, v[0]), append(ys, v[1])
		}
		sort.Float64s(xs)
		sort.Float64s(ys)
		for _, d := range []float64{xs[2] - xs[0], ys[2] - ys[0]} {
			pitch := d / float64(k)
			if math.Abs(pitch-want) > 1e-6*want+math.Abs(dev)/float64(k)+1e-9 {
				o.Failf([]string{"pitch"}, "%s id %d: pixel pitch measured from snapping is %v, cell size/16 is %v (reported deviation %v)", c.Set, id, pitch, want, dev)
				return o
			}
		}
	}
	return o
}

func TestC14Sets(t *testing.T) {
	report.RunEnum(t, specC14Sets, func(yield func(SetCase) bool) {
		for _, s := range gen.AllBuiltin {
			if !yield(SetCase{Set: s}) {
				return
			}
		}
	}, oracleC14Sets)
}

// ---------------------------------------------------------------------------------------------------------------
// (b) perturbations of accepted sets

type Pert struct {
	Level int     `json:"level"`
	Kind  string  `json:"kind"`
	F     float64 `json:"f,omitempty"`
}

type PertCase struct {
	Set   string `json:"set"`
	Perts []Pert `json:"perts"`
}

var pertKinds = []string{"mw+1", "mh+1", "mw-1", "mw,mh+1", "mw,mh-1", "mw,mh*2", "mw*2", "tw*2", "th*2", "tw,th*2", "origin-x", "origin-y", "corner", "cell*out", "cell*in", "id-string", "id-other", "varw", "remove", "scale-denominator"}

// cell size factors clearly outside and clearly inside the tool's 1.99-2.01 band
var cellOut = []float64{1.02, 0.98, 1.1, 0.9, 2, 0.5, 1.011, 0.989}
var cellIn = []float64{1.002, 0.998, 1.0001, 1}

func applyPert(t tms20.TileMatrixSet, p Pert) tms20.TileMatrixSet {
	m, ok := t.TileMatrices[p.Level]
	if !ok {
		return t
	}
	switch p.Kind {
	case "mw+1":
		m.MatrixWidth++
	case "mh+1":
		m.MatrixHeight++
	case "mw-1":
		if m.MatrixWidth > 1 {
			m.MatrixWidth--
		} else {
			m.MatrixWidth += 2
		}
	case "mw,mh+1": // still square, one tile too many each way (2n+1: passes a doubling test that halves with integer division)
		m.MatrixWidth++
		m.MatrixHeight++
	case "mw,mh-1":
		if m.MatrixWidth > 1 && m.MatrixHeight > 1 {
			m.MatrixWidth--
			m.MatrixHeight--
		} else {
			m.MatrixWidth += 2
			m.MatrixHeight += 2
		}
	case "mw,mh*2":
		m.MatrixWidth *= 2
		m.MatrixHeight *= 2
	case "mw*2":
		m.MatrixWidth *= 2
	case "tw*2":
		m.TileWidth *= 2
	case "th*2":
		m.TileHeight *= 2
	case "tw,th*2":
		m.TileWidth *= 2
		m.TileHeight *= 2
	case "origin-x":
		m.PointOfOrigin[0] += p.F
	case "origin-y":
		m.PointOfOrigin[1] += p.F
	case "corner":
		if m.CornerOfOrigin == tms20.BottomLeft {
			m.CornerOfOrigin = tms20.TopLeft
		} else {
			m.CornerOfOrigin = tms20.BottomLeft
		}
	case "cell*out", "cell*in":
		m.CellSize *= p.F
	case "id-string":
		m.ID = m.ID + "x"
	case "id-other":
		m.ID = strconv.Itoa(p.Level + 1)
	case "varw":
		m.VariableMatrixWidths = []tms20.VariableMatrixWidth{{Coalesce: 2, MinTileRow: 0, MaxTileRow: 0}}
	case "scale-denominator":
		m.ScaleDenominator *= 1.5
	case "remove":
		delete(t.TileMatrices, p.Level)
		return t
	}
	t.TileMatrices[p.Level] = m
	return t
}

var specC14Perturb = report.Spec{Property: "C14", Check: "C14Perturb", Exhaustive: true,
	Rule: "exhaustive: every accepted built-in set x every tile matrix level x every single-field perturbation from the list {matrixWidth+1, matrixHeight+1, matrixWidth-1, width and height+1, width and height-1, width*2, width and height*2, tileWidth*2, tileHeight*2, both*2, origin x/y shifted, corner flipped, cellSize x f for 8 factors outside the 1.99-2.01 band and 4 inside, id string garbled, id string of the next matrix, variable widths added, matrix removed, scaleDenominator changed}. " +
		"Oracle (two sided): the independent true-quadtree predicate decides: perturbed set no longer a true quadtree => validation returns an error; still one (last matrix removed, cell size inside the band, scale denominator) => accepted; never a panic. Non-trivial: perturbation at a level other than 0 and 1. Distinct by (set, level, perturbation)."}

func oraclePert(c PertCase) (o report.Outcome) {
	base, err := tms20.LoadEmbeddedTileMatrixSet(c.Set)
	if err != nil {
		panic(err)
	}
	t := cloneTMS(base)
	for _, p := range c.Perts {
		t = applyPert(t, p)
		o.Label("pert=%s", p.Kind)
		if p.Level > 1 {
			o.NonTrivial = true
		}
	}
	o.Key = fmt.Sprint(c)
	if len(t.TileMatrices) == 0 {
		o.OutOfScope = true
		return o
	}
	want, why := trueQuadtree(t)
	deepest := maxIDOf(t)
	err = validationAccepts(t, deepest)
	switch {
	case err != nil && strings.HasPrefix(err.Error(), "PANIC"):
		o.Failf([]string{"panic"}, "%s with %v: validation panics: %v", c.Set, c.Perts, err)
	case want && err != nil:
		o.Failf([]string{"rejects-quadtree"}, "%s with %v is still a true quadtree but validation rejects it: %v", c.Set, c.Perts, err)
	case !want && err == nil:
		o.Failf([]string{"accepts-non-quadtree"}, "%s with %v is not a true quadtree (%s) but passes validation", c.Set, c.Perts, why)
	}
	if want {
		o.Label("still a quadtree")
	} else {
		o.Label("broken")
	}
	return o
}

func enumPerts(yield func(PertCase) bool) {
	for _, set := range accepted() {
		tms, _ := tms20.LoadEmbeddedTileMatrixSet(set)
		for lvl := 0; lvl <= maxIDOf(tms); lvl++ {
			for _, k := range pertKinds {
				fs := []float64{1}
				switch k {
				case "cell*out":
					fs = cellOut
				case "cell*in":
					fs = cellIn
				case "origin-x", "origin-y":
					fs = []float64{1, -0.5, 1e-6}
				}
				for _, f := range fs {
					if !yield(PertCase{Set: set, Perts: []Pert{{Level: lvl, Kind: k, F: f}}}) {
						return
					}
				}
			}
		}
	}
}

func TestC14Perturb(t *testing.T) { report.RunEnum(t, specC14Perturb, enumPerts, oraclePert) }

var specC14Pairs = report.Spec{Property: "C14", Check: "C14Pairs",
	Rule: "random pairs and triples of the perturbations of C14Perturb at random levels of a random accepted set (can cancel each other or leave a different defect); same two sided oracle. Non-trivial: a perturbation at a level other than 0 and 1."}

func genC14Pairs(t *rapid.T) PertCase {
	c := PertCase{Set: rapid.SampledFrom(accepted()).Draw(t, "set")}
	tms, _ := tms20.LoadEmbeddedTileMatrixSet(c.Set)
	n := rapid.IntRange(2, 3).Draw(t, "n")
	for i := 0; i < n; i++ {
		p := Pert{Level: rapid.IntRange(0, maxIDOf(tms)).Draw(t, "level"), Kind: rapid.SampledFrom(pertKinds).Draw(t, "kind"), F: 1}
		switch p.Kind {
		case "cell*out":
			p.F = rapid.SampledFrom(cellOut).Draw(t, "f")
		case "cell*in":
			p.F = rapid.SampledFrom(cellIn).Draw(t, "f")
		case "origin-x", "origin-y":
			p.F = rapid.SampledFrom([]float64{1, -0.5, 1e-6}).Draw(t, "f")
		}
		c.Perts = append(c.Perts, p)
	}
	return c
}

func TestC14Pairs(t *testing.T) { report.Run(t, specC14Pairs, genC14Pairs, oraclePert) }
