package checks

import (
	"encoding/json"
	"fmt"
	"os"
	"path/filepath"
	"reflect"
	"runtime"
	"strings"
	"sync"
	"sync/atomic"
	"time"

	"github.com/go-spatial/geom"
	"github.com/pdok/texel/processing"

	"verifharness/report"
)

// ---------------------------------------------------------------------------------------------------------------
// replayable description of a pipeline run

type FeatSpec struct {
	Kind string `json:"kind"` // point multipoint linestring multilinestring polygon multipolygon collection
	// polygon: Out[0][k] ; multipolygon: Out[part][k]: number of polygons the snapping function returns for target k (0 = absent)
	Out [][]int `json:"out,omitempty"`
}

type PipeCase struct {
	Targets  []int      `json:"targets"` // tile matrix ids, distinct
	Feats    []FeatSpec `json:"feats"`
	Schedule []int      `json:"schedule"` // gate releases: 0 source, 1 snap, 2+k target k, -1 tick
	Delays   []int      `json:"delays"`   // per fake step: 0 none, 1 yield, 2 sleep 20us, 3 sleep 300us (used when Gated is false)
	Gated    bool       `json:"gated"`
	Procs    int        `json:"procs"`
	SlowFin  []bool     `json:"slowfin"`            // target k sleeps after its channel closed
	SlowFeat int        `json:"slowfeat,omitempty"` // 1-based index of a polygon feature whose snapping takes 30 ms (a straggler); 0: none
	Breaks   []int      `json:"breaks,omitempty"`   // feature indexes at which a new table starts: ProcessFeatures is called once per table with the same targets, like main.go does
}

// ---------------------------------------------------------------------------------------------------------------
// fakes

type gate struct {
	mu      sync.Mutex
	cond    *sync.Cond
	permits int
	open    bool
}

func newGate(open bool) *gate { g := &gate{open: open}; g.cond = sync.NewCond(&g.mu); return g }
func (g *gate) wait() {
	g.mu.Lock()
	for g.permits == 0 && !g.open {
		g.cond.Wait()
	}
	if !g.open {
		g.permits--
	}
	g.mu.Unlock()
}
func (g *gate) release() { g.mu.Lock(); g.permits++; g.cond.Broadcast(); g.mu.Unlock() }
func (g *gate) openAll() { g.mu.Lock(); g.open = true; g.cond.Broadcast(); g.mu.Unlock() }

type fakeFeature struct {
	idx  int
	cols []interface{}
	g    geom.Geometry
}

func (f *fakeFeature) Columns() []interface{}  { return f.cols }
func (f *fakeFeature) Geometry() geom.Geometry { return f.g }

type delayer struct {
	plan []int
	n    int64
}

func (d *delayer) step() {
	if len(d.plan) == 0 {
		return
	}
	switch d.plan[int(atomic.AddInt64(&d.n, 1))%len(d.plan)] {
	case 1:
		runtime.Gosched()
	case 2:
		time.Sleep(20 * time.Microsecond)
	case 3:
		time.Sleep(300 * time.Microsecond)
	}
}

type fakeSource struct {
	feats []*fakeFeature
	g     *gate
	d     *delayer
}

func (s *fakeSource) ReadFeatures(ch chan<- processing.Feature) {
	for _, f := range s.feats {
		s.g.wait()
		s.d.step()
		ch <- f
	}
	s.g.wait()
	close(ch)
}

type received struct {
	cols []interface{}
	geom geom.Geometry
	tmID int
	isTM bool
	f    processing.Feature // the delivered object itself: read again when the channel closes (a real target keeps features until it writes a page)
}

type fakeTarget struct {
	id      int
	g       *gate
	d       *delayer
	mu      sync.Mutex
	got     []received
	done    int32
	slowFin bool
	changed string // set when a retained feature reads differently at the end than on receipt
	table   string // written by the caller after ProcessFeatures returned, like main.go does with target.Table
}

func (t *fakeTarget) WriteFeatures(ch <-chan processing.Feature) {
	for {
		t.g.wait()
		t.d.step()
		f, ok := <-ch
		if !ok {
			break
		}
		_ = t.table
		r := received{cols: f.Columns(), geom: f.Geometry(), f: f}
		if tm, ok := f.(processing.FeatureForTileMatrix); ok {
			r.tmID, r.isTM = tm.TileMatrixID(), true
		}
		t.mu.Lock()
		t.got = append(t.got, r)
		t.mu.Unlock()
	}
	if t.slowFin {
		time.Sleep(3 * time.Millisecond)
	}
	// read every retained feature again: what was delivered must not have changed since
	t.mu.Lock()
	for i, r := range t.got {
		if r.f == nil {
			continue
		}
		again := received{cols: r.f.Columns(), geom: r.f.Geometry()}
		if tm, ok := r.f.(processing.FeatureForTileMatrix); ok {
			again.tmID, again.isTM = tm.TileMatrixID(), true
		}
		if !reflect.DeepEqual(again.cols, r.cols) || !reflect.DeepEqual(again.geom, r.geom) || again.tmID != r.tmID {
			t.changed = fmt.Sprintf("delivery %d changed after it was delivered: was (%v, %v, tile matrix %d), is now (%v, %v, tile matrix %d)", i, r.cols, r.geom, r.tmID, again.cols, again.geom, again.tmID)
		}
		t.got[i].f = nil
	}
	t.mu.Unlock()
	_ = t.table
	atomic.AddInt32(&t.done, 1)
}

func (t *fakeTarget) snapshot() []received {
	t.mu.Lock()
	defer t.mu.Unlock()
	return append([]received{}, t.got...)
}

// marker polygon: identifies (feature, part, target id, j)
func markerPolygon(feat, part, id, j int) geom.Polygon {
	return geom.Polygon{{{float64(feat), float64(part)}, {float64(id), float64(j)}, {0.5, 0.25}}}
}

func nonPolygonGeometry(kind string, i int) geom.Geometry {
	x := float64(i)
	switch kind {
	case "point":
		return geom.Point{x, 1}
	case "multipoint":
		return geom.MultiPoint{{x, 1}, {x, 2}}
	case "linestring":
		return geom.LineString{{x, 0}, {x, 1}}
	case "multilinestring":
		return geom.MultiLineString{{{x, 0}, {x, 1}}, {{x, 2}, {x, 3}}}
	case "collection":
		return geom.Collection{geom.Point{x, 1}, geom.Polygon{{{x, 0}, {x + 1, 0}, {x, 1}}}}
	}
	panic("harness: unknown kind " + kind)
}

// pipeRun is one execution of processing.ProcessFeatures with fakes.
type pipeRun struct {
	c        PipeCase
	src      *fakeSource
	targets  []*fakeTarget
	snapGate *gate
	gates    []*gate
	expected [][]received // per target
	returned chan string
}

func buildRun(c PipeCase) *pipeRun {
	r := &pipeRun{c: c, returned: make(chan string, 1)}
	d := &delayer{}
	if !c.Gated {
		d.plan = c.Delays
	}
	r.src = &fakeSource{g: newGate(!c.Gated), d: d}
	r.snapGate = newGate(!c.Gated)
	r.gates = []*gate{r.src.g, r.snapGate}
	for k, id := range c.Targets {
		ft := &fakeTarget{id: id, g: newGate(!c.Gated), d: d}
		if k < len(c.SlowFin) {
			ft.slowFin = c.SlowFin[k]
		}
		r.targets = append(r.targets, ft)
		r.gates = append(r.gates, ft.g)
	}
	r.expected = make([][]received, len(c.Targets))
	for i, fs := range c.Feats {
		f := &fakeFeature{idx: i, cols: []interface{}{int64(i), float64(i) / 4, fmt.Sprintf("name-%d", i), nil}}
		switch fs.Kind {
		case "polygon":
			f.g = markerPolygon(i, 0, -1, 0)
		case "multipolygon":
			mp := geom.MultiPolygon{}
			for p := range fs.Out {
				mp = append(mp, markerPolygon(i, p, -1, 0))
			}
			f.g = mp
		default:
			f.g = nonPolygonGeometry(fs.Kind, i)
		}
		r.src.feats = append(r.src.feats, f)
		// the sequential model
		for k, id := range c.Targets {
			switch fs.Kind {
			case "polygon":
				n := fs.Out[0][k]
				if n == 1 {
					r.expected[k] = append(r.expected[k], received{cols: f.cols, geom: markerPolygon(i, 0, id, 0), tmID: id, isTM: true})
				} else if n > 1 {
					mp := geom.MultiPolygon{}
					for j := 0; j < n; j++ {
						mp = append(mp, markerPolygon(i, 0, id, j))
					}
					r.expected[k] = append(r.expected[k], received{cols: f.cols, geom: mp, tmID: id, isTM: true})
				}
			case "multipolygon":
				mp := geom.MultiPolygon{}
				for p := range fs.Out {
					for j := 0; j < fs.Out[p][k]; j++ {
						mp = append(mp, markerPolygon(i, p, id, j))
					}
				}
				if len(mp) > 0 {
					r.expected[k] = append(r.expected[k], received{cols: f.cols, geom: mp, tmID: id, isTM: true})
				}
			default:
				r.expected[k] = append(r.expected[k], received{cols: f.cols, geom: f.g, tmID: id, isTM: true})
			}
		}
	}
	return r
}

// snapFunc is the fake snapping function: it looks the outcome up by the marker in the polygon.
func (r *pipeRun) snapFunc(p geom.Polygon, ids []int) map[int][]geom.Polygon {
	r.snapGate.wait()
	feat, part := int(p[0][0][0]), int(p[0][0][1])
	if r.c.SlowFeat > 0 && feat == r.c.SlowFeat-1 {
		time.Sleep(30 * time.Millisecond)
	}
	out := map[int][]geom.Polygon{}
	fs := r.c.Feats[feat]
	for _, id := range ids {
		for k, tid := range r.c.Targets {
			if tid != id {
				continue
			}
			n := fs.Out[part][k]
			for j := 0; j < n; j++ {
				out[id] = append(out[id], markerPolygon(feat, part, id, j))
			}
		}
	}
	return out
}

func (r *pipeRun) start() {
	targets := map[int]processing.Target{}
	for _, ft := range r.targets {
		targets[ft.id] = ft
	}
	// the feature stream is cut into tables; ProcessFeatures runs once per table with the same targets
	var tables [][]*fakeFeature
	prev := 0
	for _, b := range r.c.Breaks {
		if b > prev && b < len(r.src.feats) {
			tables = append(tables, r.src.feats[prev:b])
			prev = b
		}
	}
	tables = append(tables, r.src.feats[prev:])
	go func() {
		msg := ""
		for k, feats := range tables {
			src := &fakeSource{feats: feats, g: r.src.g, d: r.src.d}
			processing.ProcessFeatures(src, targets, r.snapFunc)
			// the moment it returned: every target must be done with this table, and the caller moves on to the next table like main.go
			for _, ft := range r.targets {
				if n := atomic.LoadInt32(&ft.done); int(n) != k+1 {
					msg += fmt.Sprintf("target %d had finished %d of %d tables when ProcessFeatures returned for table %d; ", ft.id, n, k+1, k+1)
				}
				ft.table = fmt.Sprintf("table-%d", k+1)
			}
			if msg != "" {
				break
			}
		}
		r.returned <- msg
	}()
}

func sameReceived(a, b received) string {
	if !reflect.DeepEqual(a.cols, b.cols) {
		return fmt.Sprintf("attributes %v, expected %v", a.cols, b.cols)
	}
	if !reflect.DeepEqual(a.geom, b.geom) {
		return fmt.Sprintf("geometry %v (%T), expected %v (%T)", a.geom, a.geom, b.geom, b.geom)
	}
	if !a.isTM || a.tmID != b.tmID {
		return fmt.Sprintf("tile matrix id of the delivered feature is %d (wrapper %v), target is %d", a.tmID, a.isTM, b.tmID)
	}
	return ""
}

// prefixCheck: what the targets have so far must be a prefix of the model.
func (r *pipeRun) prefixCheck(final bool) string {
	for k, ft := range r.targets {
		if final {
			ft.mu.Lock()
			ch := ft.changed
			ft.mu.Unlock()
			if ch != "" {
				return fmt.Sprintf("target %d: %s", ft.id, ch)
			}
		}
		got := ft.snapshot()
		want := r.expected[k]
		if len(got) > len(want) {
			return fmt.Sprintf("target %d received %d features, expected %d: extra %v", ft.id, len(got), len(want), got[len(want)])
		}
		for i := range got {
			if why := sameReceived(got[i], want[i]); why != "" {
				return fmt.Sprintf("target %d, delivery %d: %s", ft.id, i, why)
			}
		}
		if final && len(got) != len(want) {
			return fmt.Sprintf("target %d received %d features, expected %d (next missing: feature with attributes %v)", ft.id, len(got), len(want), want[len(got)].cols)
		}
	}
	return ""
}

func pipelineGoroutines() (n int, dump string) {
	buf := make([]byte, 1<<20)
	buf = buf[:runtime.Stack(buf, true)]
	for _, g := range strings.Split(string(buf), "\n\n") {
		if strings.Contains(g, "github.com/pdok/texel/processing.") {
			n++
			dump += g + "\n\n"
		}
	}
	return n, dump
}

func allBlocked(dump string) bool {
	for _, g := range strings.Split(strings.TrimSpace(dump), "\n\n") {
		first := strings.SplitN(g, "\n", 2)[0]
		if !(strings.Contains(first, "chan send") || strings.Contains(first, "chan receive") || strings.Contains(first, "semacquire") || strings.Contains(first, "sync.WaitGroup.Wait") || strings.Contains(first, "sync.Cond.Wait")) {
			return false
		}
	}
	return true
}

// crash capture: the case that is running is on disk, so that a crash of the whole process (panic in a pipeline
// goroutine, data race with halt_on_error, runtime deadlock detection) can be attributed.
func captureCurrent(spec report.Spec, c any) {
	js, _ := json.Marshal(c)
	rf := report.ReplayFile{Property: spec.Property, Check: spec.Check, Expect: "pass", Failure: "the process crashed while this case was running (see the output of the run)", Tags: []string{"crash"}, Case: js}
	b, _ := json.Marshal(rf)
	_ = os.WriteFile(filepath.Join(report.OutDir(), fmt.Sprintf("CURRENT-%s-%s-shard%d.json", spec.Property, spec.Check, report.Shard())), b, 0o644)
}

func clearCurrent(spec report.Spec) {
	_ = os.Remove(filepath.Join(report.OutDir(), fmt.Sprintf("CURRENT-%s-%s-shard%d.json", spec.Property, spec.Check, report.Shard())))
}

// finish waits for ProcessFeatures to return (all gates are open by now) and applies the end-of-history checks.
func (r *pipeRun) finish(spec report.Spec, o *report.Outcome) {
	select {
	case msg := <-r.returned:
		if msg != "" {
			o.Failf([]string{"early-return"}, "%s", msg)
			return
		}
	case <-time.After(hangLimit()):
		_, d1 := pipelineGoroutines()
		time.Sleep(time.Second)
		_, d2 := pipelineGoroutines()
		if d1 != "" && allBlocked(d1) && allBlocked(d2) {
			// confirmed: every pipeline goroutine is parked in a channel operation or a WaitGroup in both dumps
			js, _ := json.Marshal(r.c)
			rf := report.ReplayFile{Property: spec.Property, Check: spec.Check, Expect: "pass", Failure: "deadlock: ProcessFeatures did not return; all pipeline goroutines are blocked:\n" + d2, Tags: []string{"deadlock"}, Case: js}
			b, _ := json.MarshalIndent(rf, "", " ")
			_ = os.WriteFile(filepath.Join(report.OutDir(), fmt.Sprintf("FAIL-%s-%s-shard%d.json", spec.Property, spec.Check, report.Shard())), b, 0o644)
			fmt.Printf("DEADLOCK property=%s\n%s\n", spec.Property, d2)
			os.Exit(98)
		}
		hangExit(spec, r.c, fmt.Sprintf("ProcessFeatures did not return within %v after all gates were opened", hangLimit()))
	}
	if why := r.prefixCheck(true); why != "" {
		o.Failf([]string{"delivery"}, "%s", why)
		return
	}
	deadline := time.Now().Add(2 * time.Second)
	for {
		n, dump := pipelineGoroutines()
		if n == 0 {
			break
		}
		if time.Now().After(deadline) {
			o.Failf([]string{"goroutine-leak"}, "%d pipeline goroutines are still alive 2 s after ProcessFeatures returned:\n%s", n, dump)
			return
		}
		time.Sleep(200 * time.Microsecond)
	}
}
