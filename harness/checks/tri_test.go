package checks

import (
	"fmt"
	"testing"

	"verifharness/gen"
	"verifharness/report"
)

// Exhaustive slice shared by C01, C04 and C18: ALL triangles with vertices on the quarter pixel lattice of a 2x2 pixel window
// (81 lattice points, 85 320 vertex triples, collinear ones skipped), at two window positions of a two-level synthetic grid
// with non-zero origin, requested at both tile matrices together. Quick tier: every 16th triple.

type TriCase struct {
	Pos  int    `json:"pos"`
	A    [2]int `json:"a"`
	B    [2]int `json:"b"`
	C    [2]int `json:"c"`
	Keep bool   `json:"keep"`
}

var triGrid = gen.GridSpec{Kind: "synthetic", NTM: 2, PxLog2: 0, OX: -40, OY: 24, TopLeft: true} // 32x32 pixels of size 1 at id 1
var triAnchors = []P{{X: 15, Y: 15}, {X: 6, Y: 21}}                                              // on the root split; interior

func enumTriangles(yield func(TriCase) bool) {
	n, shard := 0, report.Shard()
	for pos := range triAnchors {
		for i := 0; i < 81; i++ {
			for j := i + 1; j < 81; j++ {
				for k := j + 1; k < 81; k++ {
					a, b, c := [2]int{i % 9, i / 9}, [2]int{j % 9, j / 9}, [2]int{k % 9, k / 9}
					if (b[0]-a[0])*(c[1]-a[1])-(b[1]-a[1])*(c[0]-a[0]) == 0 {
						continue
					}
					n++
					if report.Tier() == "quick" {
						if n%16 != 0 {
							continue
						}
					} else if n%16 != shard%16 {
						continue
					}
					if !yield(TriCase{Pos: pos, A: a, B: b, C: c, Keep: n%2 == 0}) {
						return
					}
				}
			}
		}
	}
}

func triToCase(tc TriCase) SnapCase {
	an := triAnchors[tc.Pos]
	f := func(u [2]int) [2]float64 {
		return [2]float64{triGrid.OX + float64(an.X) + float64(u[0])/4, triGrid.OY + float64(an.Y) + float64(u[1])/4}
	}
	c := SnapCase{Grid: triGrid, IDs: []int{1, 0}, Q: 4, Shape: "triangle", Poly: [][][2]float64{{f(tc.A), f(tc.B), f(tc.C)}}}
	c.Flags.Keep = tc.Keep
	c.Extra = map[string]int64{"locOff": 3, "locOffY": 5}
	return c
}

func triSpec(base report.Spec) report.Spec {
	s := base
	s.Check = base.Property + "Tri"
	s.Exhaustive = true
	s.Rule = "exhaustive slice: ALL triangles with vertices on the quarter pixel lattice of a 2x2 pixel window (81 points, 85 320 triples, collinear ones skipped) at two window positions (on the root split, interior) of a synthetic grid with origin (-40, 24) and top-left corner of origin, both tile matrices requested together, keep flag alternating; quick tier: every 16th triple. " +
		"Same oracle as " + base.Check + ". Non-trivial as there."
	return s
}

func triOracle(inner func(SnapCase) report.Outcome) func(TriCase) report.Outcome {
	return func(tc TriCase) report.Outcome {
		o := inner(triToCase(tc))
		o.Key = fmt.Sprint(tc)
		o.Labels = nil
		return o
	}
}

func TestC01Tri(t *testing.T) {
	report.RunEnum(t, triSpec(specC01), enumTriangles, triOracle(oracleC01))
}
func TestC04Tri(t *testing.T) {
	report.RunEnum(t, triSpec(specC04), enumTriangles, triOracle(oracleC04))
}
func TestC18Tri(t *testing.T) {
	report.RunEnum(t, triSpec(specC18), enumTriangles, triOracle(oracleC18))
}
