package checks

import (
	"runtime"
	"sort"
	"testing"

	"pgregory.net/rapid"

	"verifharness/report"
)

var specC10 = report.Spec{Property: "C10", Check: "C10",
	Rule: "feature streams of length 0-200 (most below 40; 1 in ~60 with 1100-1700 features, thorough 6000), 1-5 targets (1 in 15 cases 6-16), optionally one early polygon whose snapping takes 30 ms (a straggler), each feature of a random geometry type (point, multipoint, linestring, multilinestring, collection, polygon, multipolygon with 1-4 parts) with a unique attribute tuple (int, float, string, nil); 1-5 targets with arbitrary distinct tile matrix ids; " +
		"a generated outcome table for the fake snapping function: per (polygon part, target) absent / one polygon / 2-3 polygons, never an empty list (the caller's contract); a generated plan of yields and sleeps in source, snapping function and targets; GOMAXPROCS in {1,2,4,16}; the stream is cut into 1-3 tables and ProcessFeatures is called once per table with the same target objects, like main.go does. " +
		"Oracle: a sequential reference model computes per target the expected list of (attributes, geometry, tile matrix id); fake targets record what they receive, keep the delivered objects and read them again when their channel closes (a delivered feature must not change afterwards); exact sequence equality (count, order, attribute identity, geometry deep equality, tile matrix id of every delivered feature = the target's id); ProcessFeatures returns and leaves no goroutine. " +
		"Non-trivial: >= 2 targets, some polygon feature dropped for one target and kept for another, and some feature split into several polygons. Distinct by case content.",
	Assumptions: []string{"the snapping function is a fake with marker geometries; the real one is covered by C13", "a run that does not return within 10 s is re-run in a fresh process with 60 s before it counts"}}

func drawFeats(t *rapid.T, nTargets int, maxFeats int) []FeatSpec {
	n := rapid.IntRange(0, maxFeats).Draw(t, "features")
	if rapid.IntRange(0, 9).Draw(t, "long") == 0 {
		n = rapid.IntRange(0, report.Scale(200, 600)).Draw(t, "featuresLong")
	}
	if rapid.IntRange(0, 49).Draw(t, "huge") == 23 { // thousands of features: buffers, pools and reorder windows fill up
		n = rapid.IntRange(1100, report.Scale(1700, 6000)).Draw(t, "featuresHuge")
	}
	feats := make([]FeatSpec, n)
	for i := range feats {
		kind := rapid.SampledFrom([]string{"polygon", "polygon", "polygon", "multipolygon", "multipolygon", "point", "multipoint", "linestring", "multilinestring", "collection"}).Draw(t, "kind")
		fs := FeatSpec{Kind: kind}
		parts := 0
		switch kind {
		case "polygon":
			parts = 1
		case "multipolygon":
			parts = rapid.IntRange(1, 4).Draw(t, "parts")
		}
		for p := 0; p < parts; p++ {
			row := make([]int, nTargets)
			for k := range row {
				row[k] = rapid.SampledFrom([]int{0, 0, 1, 1, 1, 2, 3}).Draw(t, "outcome")
			}
			fs.Out = append(fs.Out, row)
		}
		feats[i] = fs
	}
	return feats
}

func drawTargets(t *rapid.T) []int {
	n := rapid.IntRange(1, 5).Draw(t, "targets")
	if rapid.IntRange(0, 14).Draw(t, "manyTargets") == 7 {
		n = rapid.IntRange(6, 16).Draw(t, "nManyTargets")
	}
	seen := map[int]bool{}
	var ids []int
	for len(ids) < n {
		id := rapid.IntRange(0, 24).Draw(t, "tmid")
		for seen[id] {
			id = (id + 1) % 25
		}
		seen[id] = true
		ids = append(ids, id)
	}
	return ids
}

func genC10(t *rapid.T) PipeCase {
	c := PipeCase{Targets: drawTargets(t)}
	c.Feats = drawFeats(t, len(c.Targets), 40)
	c.Delays = rapid.SliceOfN(rapid.SampledFrom([]int{0, 0, 0, 1, 1, 2, 3}), 1, 23).Draw(t, "delays")
	c.Procs = rapid.SampledFrom([]int{1, 2, 4, 16}).Draw(t, "procs")
	c.SlowFin = rapid.SliceOfN(rapid.Bool(), len(c.Targets), len(c.Targets)).Draw(t, "slowfin")
	c.Breaks = drawBreaks(t, len(c.Feats))
	c.SlowFeat = drawStraggler(t, c.Feats)
	if len(c.Feats) > 1000 { // the huge class: several CPUs, and usually one table so that everything is in flight at once
		c.Procs = rapid.SampledFrom([]int{4, 16}).Draw(t, "procsHuge")
		if rapid.IntRange(0, 3).Draw(t, "oneTable") > 0 {
			c.Breaks = nil
		}
	}
	return c
}

// drawStraggler picks (sometimes) an early polygon feature whose snapping is slow, so that later features overtake it inside the pipeline if they can.
func drawStraggler(t *rapid.T, feats []FeatSpec) int {
	if len(feats) == 0 || rapid.IntRange(0, 3).Draw(t, "straggler") != 2 {
		return 0
	}
	for i, f := range feats[:min(len(feats), 8)] {
		if f.Kind == "polygon" || f.Kind == "multipolygon" {
			return i + 1
		}
	}
	return 0
}

// drawBreaks cuts the stream into 1-3 tables.
func drawBreaks(t *rapid.T, n int) []int {
	var br []int
	if n >= 2 {
		for k := rapid.IntRange(0, 2).Draw(t, "tables"); k > 0; k-- {
			br = append(br, rapid.IntRange(1, n-1).Draw(t, "break"))
		}
	}
	sort.Ints(br)
	return br
}

func pipeNonTrivial(c PipeCase) bool {
	if len(c.Targets) < 2 {
		return false
	}
	mixed, split := false, false
	for _, f := range c.Feats {
		for _, row := range f.Out {
			zero, nonzero := false, false
			for _, n := range row {
				if n == 0 {
					zero = true
				} else {
					nonzero = true
				}
				if n > 1 {
					split = true
				}
			}
			if zero && nonzero {
				mixed = true
			}
		}
	}
	return mixed && split
}

func oracleC10(c PipeCase) (o report.Outcome) {
	captureCurrent(specC10, c)
	defer clearCurrent(specC10)
	old := runtime.GOMAXPROCS(max(c.Procs, 1))
	defer runtime.GOMAXPROCS(old)
	o.Label("targets=%d", len(c.Targets))
	o.Label("procs=%d", c.Procs)
	switch {
	case len(c.Feats) > 1000:
		o.Label("features>1000")
	case len(c.Feats) > 100:
		o.Label("features>100")
	}
	if c.SlowFeat > 0 {
		o.Label("straggler")
	}
	o.NonTrivial = pipeNonTrivial(c)
	r := buildRun(c)
	r.start()
	r.finish(specC10, &o)
	return o
}

func TestC10(t *testing.T) { report.Run(t, specC10, genC10, oracleC10) }
