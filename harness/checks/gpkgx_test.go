package checks

import (
	"database/sql"
	"fmt"
	"math"
	"os"
	"path/filepath"
	"reflect"
	"sort"
	"strings"
	"sync/atomic"
	"time"

	"github.com/go-spatial/geom"
	gogpkg "github.com/go-spatial/geom/encoding/gpkg"
	"pgregory.net/rapid"
)

// ---------------------------------------------------------------------------------------------------------------
// replayable description of a GeoPackage

type Geom struct {
	T string           `json:"t"` // POINT MULTIPOINT LINESTRING MULTILINESTRING POLYGON MULTIPOLYGON
	C [][][][2]float64 `json:"c"`
}

func (g Geom) Build() geom.Geometry {
	switch g.T {
	case "POINT":
		return geom.Point(g.C[0][0][0])
	case "MULTIPOINT":
		mp := geom.MultiPoint{}
		if len(g.C) > 0 && len(g.C[0]) > 0 {
			for _, p := range g.C[0][0] {
				mp = append(mp, p)
			}
		}
		return mp
	case "LINESTRING":
		ls := geom.LineString{}
		if len(g.C) > 0 && len(g.C[0]) > 0 {
			ls = append(ls, g.C[0][0]...)
		}
		return ls
	case "MULTILINESTRING":
		ml := geom.MultiLineString{}
		if len(g.C) > 0 {
			for _, l := range g.C[0] {
				ml = append(ml, append([][2]float64{}, l...))
			}
		}
		return ml
	case "POLYGON":
		pg := geom.Polygon{}
		if len(g.C) > 0 {
			for _, r := range g.C[0] {
				pg = append(pg, append([][2]float64{}, r...))
			}
		}
		return pg
	case "COLLECTION":
		col := geom.Collection{}
		if len(g.C) == 2 {
			col = append(col, geom.Point(g.C[0][0][0]))
			pg := geom.Polygon{}
			for _, r := range g.C[1] {
				pg = append(pg, append([][2]float64{}, r...))
			}
			col = append(col, pg)
		}
		return col
	case "MULTIPOLYGON":
		mp := geom.MultiPolygon{}
		for _, p := range g.C {
			pg := [][][2]float64{}
			for _, r := range p {
				pg = append(pg, append([][2]float64{}, r...))
			}
			mp = append(mp, pg)
		}
		return mp
	}
	panic("harness: unknown geometry type " + g.T)
}

// coords lists every coordinate.
func (g Geom) coords() [][2]float64 {
	var out [][2]float64
	for _, a := range g.C {
		for _, b := range a {
			out = append(out, b...)
		}
	}
	return out
}

type ColSpec struct {
	Name    string `json:"name"`
	Type    string `json:"type"` // INTEGER REAL TEXT
	NotNull bool   `json:"notnull,omitempty"`
}

type RowSpec struct {
	PK   int64 `json:"pk"`
	Vals []any `json:"vals"` // one per attribute column: float64 (JSON number), string or nil
	Geom Geom  `json:"geom"`
}

type TableSpec struct {
	Name    string `json:"name"`
	PKName  string `json:"pk"`
	GeomCol string `json:"geomcol"`
	GeomPos int    `json:"geompos"` // position of the geometry column among the attribute columns (0 = right after the pk)
	GType   string `json:"gtype"`
	// GTypeCase: how the source spells the type name in gpkg_geometry_columns ("" = upper case as the standard lists them, "lower", "title":
	// files from other writers are spelled like that and the tool reads the name without regard to case)
	GTypeCase string `json:"gtypecase,omitempty"`
	SRS       int    `json:"srs"`
	// GTypeDecl: the source declares the column with this extension type name (CURVEPOLYGON, MULTISURFACE, ...: super types that may hold the
	// linear geometries generated here); only for checks that do not compare the type name (the tool registers GEOMETRY for names it does not know)
	GTypeDecl string `json:"gtypedecl,omitempty"`
	// Reg: the name under which the table is registered in gpkg_contents / gpkg_geometry_columns when it differs (in case only) from the
	// name in CREATE TABLE; SQLite table names are case-insensitive
	Reg  string    `json:"reg,omitempty"`
	Cols []ColSpec `json:"cols"`
	Rows []RowSpec `json:"rows"`
}

func (t TableSpec) reg() string {
	if t.Reg != "" {
		return t.Reg
	}
	return t.Name
}

var rdSRS = gogpkg.SpatialReferenceSystem{Name: "Amersfoort / RD New", ID: 28992, Organization: "EPSG", OrganizationCoordsysID: 28992,
	Definition:  `PROJCS["Amersfoort / RD New",GEOGCS["Amersfoort",DATUM["Amersfoort",SPHEROID["Bessel 1841",6377397.155,299.1528128]],PRIMEM["Greenwich",0],UNIT["degree",0.0174532925199433]],PROJECTION["Oblique_Stereographic"],UNIT["metre",1],AUTHORITY["EPSG","28992"]]`,
	Description: "custom definition written by the harness"}

// colValue converts a JSON-level value to what the sqlite driver should get for the column type.
func colValue(c ColSpec, v any) any {
	if v == nil {
		return nil
	}
	switch c.Type {
	case "INTEGER":
		return int64(v.(float64))
	case "REAL":
		return v.(float64)
	case "DATETIME": // what the tool's reader hands on for such a column: a time.Time
		tm, err := time.Parse(time.RFC3339Nano, v.(string))
		if err != nil {
			panic(err)
		}
		return tm
	default:
		return v.(string)
	}
}

// sameValue compares an attribute value read back from a file with the expected one (instants for times).
func sameValue(got, want any) bool {
	if gt, ok := got.(time.Time); ok {
		wt, ok := want.(time.Time)
		return ok && gt.Equal(wt)
	}
	return reflect.DeepEqual(got, want)
}

func (t TableSpec) gtype() gogpkg.GeometryType {
	for _, gt := range []gogpkg.GeometryType{gogpkg.Geometry, gogpkg.Point, gogpkg.Linestring, gogpkg.Polygon, gogpkg.MultiPoint, gogpkg.MultiLinestring, gogpkg.MultiPolygon, gogpkg.GeometryCollection} {
		if gt.String() == t.GType {
			return gt
		}
	}
	panic("harness: geometry type " + t.GType)
}

// orderedCols gives the column definitions in table order: pk, attributes with the geometry column at GeomPos.
func (t TableSpec) createSQL() string {
	defs := []string{t.PKName + " INTEGER NOT NULL PRIMARY KEY"}
	pos := min(max(t.GeomPos, 0), len(t.Cols))
	for i := 0; i <= len(t.Cols); i++ {
		if i == pos {
			defs = append(defs, t.GeomCol+" "+t.GType)
		}
		if i < len(t.Cols) {
			d := t.Cols[i].Name + " " + t.Cols[i].Type
			if t.Cols[i].NotNull {
				d += " NOT NULL"
			}
			defs = append(defs, d)
		}
	}
	return fmt.Sprintf(`CREATE TABLE "%s" (%s)`, t.Name, strings.Join(defs, ", "))
}

// writeSource creates a GeoPackage with the given tables through go-spatial's gpkg package and plain SQL.
func writeSource(path string, tables []TableSpec) error {
	closeEditor, err := writeSourceLate(path, tables, 0)
	closeEditor()
	return err
}

// writeSourceLate: as writeSource, but the last `late` rows of every table are committed afterwards through a second connection in
// write-ahead-log mode with automatic checkpoints off, and that connection stays open until the returned function is called: the
// file is then in the state of a GeoPackage that is open in an editor (QGIS keeps its GeoPackages in WAL mode) - the rows are part
// of the source for every SQLite reader, but they live in the -wal file next to it.
func writeSourceLate(path string, tables []TableSpec, late int) (closeEditor func(), err error) {
	closeEditor = func() {}
	h, err := gogpkg.Open(path)
	if err != nil {
		return closeEditor, err
	}
	type pending struct {
		q    string
		args [][]any
		t    TableSpec
		ext  *geom.Extent
	}
	var todo []pending
	err = func() error {
		defer h.Close()
		return writeSourceTables(h, tables, late, func(q string, args []any, t TableSpec, ext *geom.Extent) {
			if len(todo) == 0 || todo[len(todo)-1].t.Name != t.Name {
				todo = append(todo, pending{q: q, t: t})
			}
			todo[len(todo)-1].args = append(todo[len(todo)-1].args, args)
			todo[len(todo)-1].ext = ext
		})
	}()
	if err != nil || len(todo) == 0 {
		return closeEditor, err
	}
	db, err := sql.Open("spatialite", "file:"+path+"?_journal_mode=WAL&_busy_timeout=10000") // (the verif-tagged stub driver: the source tables carry R-tree triggers that call ST_IsEmpty)
	if err != nil {
		return closeEditor, err
	}
	db.SetMaxOpenConns(1)
	closeEditor = func() { _ = db.Close() }
	if _, err := db.Exec(`PRAGMA wal_autocheckpoint=0`); err != nil {
		return closeEditor, err
	}
	for _, p := range todo {
		for _, args := range p.args {
			if _, err := db.Exec(p.q, args...); err != nil {
				return closeEditor, fmt.Errorf("editor connection: %s: %w", p.q, err)
			}
		}
		if p.ext != nil {
			if _, err := db.Exec(`UPDATE gpkg_contents SET min_x = ?, min_y = ?, max_x = ?, max_y = ? WHERE table_name = ?`, p.ext.MinX(), p.ext.MinY(), p.ext.MaxX(), p.ext.MaxY(), p.t.reg()); err != nil {
				return closeEditor, err
			}
		}
	}
	return closeEditor, nil
}

// writeSourceTables writes the tables through h; the last `late` rows of each table are not written but handed to defer_ together
// with the extent of the whole table.
func writeSourceTables(h *gogpkg.Handle, tables []TableSpec, late int, defer_ func(q string, args []any, t TableSpec, ext *geom.Extent)) error {
	for _, t := range tables {
		if t.SRS == 28992 {
			if err := h.UpdateSRS(rdSRS); err != nil {
				return err
			}
		}
		if _, err := h.Exec(t.createSQL()); err != nil {
			return fmt.Errorf("%s: %w", t.createSQL(), err)
		}
		if err := h.AddGeometryTable(gogpkg.TableDescription{Name: t.reg(), ShortName: t.Name, Description: t.Name, GeometryField: t.GeomCol, GeometryType: t.gtype(), SRS: int32(t.SRS), Z: gogpkg.Prohibited, M: gogpkg.Prohibited}); err != nil {
			return err
		}
		if t.GTypeDecl != "" {
			if _, err := h.Exec(`UPDATE gpkg_geometry_columns SET geometry_type_name = ? WHERE table_name = ?`, t.GTypeDecl, t.reg()); err != nil {
				return err
			}
		} else if t.GTypeCase != "" {
			spelled := strings.ToLower(t.GType)
			if t.GTypeCase == "title" {
				spelled = strings.ToUpper(spelled[:1]) + spelled[1:]
				spelled = strings.NewReplacer("point", "Point", "linestring", "LineString", "polygon", "Polygon", "collection", "Collection").Replace(spelled)
			}
			if _, err := h.Exec(`UPDATE gpkg_geometry_columns SET geometry_type_name = ? WHERE table_name = ?`, spelled, t.reg()); err != nil {
				return err
			}
		}
		names := []string{t.PKName}
		for _, c := range t.Cols {
			names = append(names, c.Name)
		}
		names = append(names, t.GeomCol)
		q := fmt.Sprintf(`INSERT INTO "%s"(%s) VALUES(%s)`, t.Name, strings.Join(names, ","), strings.TrimSuffix(strings.Repeat("?,", len(names)), ","))
		var ext, extEarly *geom.Extent
		var lateArgs [][]any
		for ri, r := range t.Rows {
			args := []any{r.PK}
			for i, c := range t.Cols {
				args = append(args, colValue(c, r.Vals[i]))
			}
			sb, err := gogpkg.NewBinary(int32(t.SRS), r.Geom.Build())
			if err != nil {
				return err
			}
			args = append(args, sb)
			isLate := ri >= len(t.Rows)-late
			if isLate {
				lateArgs = append(lateArgs, args)
			} else if _, err := h.Exec(q, args...); err != nil {
				return fmt.Errorf("%s: %w", q, err)
			}
			if e, _ := geom.NewExtentFromGeometry(r.Geom.Build()); e != nil {
				if ext == nil {
					ext = e.Clone()
				} else {
					ext.Add(e)
				}
				if !isLate {
					if extEarly == nil {
						extEarly = e.Clone()
					} else {
						extEarly.Add(e)
					}
				}
			}
		}
		if err := h.UpdateGeometryExtent(t.reg(), extEarly); err != nil {
			return err
		}
		for _, args := range lateArgs {
			defer_(q, args, t, ext)
		}
	}
	return nil
}

// ---------------------------------------------------------------------------------------------------------------
// reading back

type readRow struct {
	PK   int64
	Vals []any
	Geom geom.Geometry
}

type readTable struct {
	Rows      []readRow
	RtreeIDs  []int64
	Extent    [4]*float64
	GeomCol   string
	GType     string
	SRSID     int
	SRSRow    string
	TableInfo string
	Contents  bool
}

func openDB(path string) (*sql.DB, error) { return sql.Open(gogpkg.SPATIALITE, path) }

func featureTables(db *sql.DB) ([]string, error) {
	rows, err := db.Query(`SELECT table_name FROM gpkg_geometry_columns ORDER BY table_name`)
	if err != nil {
		return nil, err
	}
	defer rows.Close()
	var out []string
	for rows.Next() {
		var n string
		if err := rows.Scan(&n); err != nil {
			return nil, err
		}
		out = append(out, n)
	}
	return out, rows.Err()
}

func readBack(db *sql.DB, t TableSpec) (rt readTable, err error) {
	if err = db.QueryRow(`SELECT column_name, geometry_type_name, srs_id FROM gpkg_geometry_columns WHERE table_name = ?`, t.reg()).Scan(&rt.GeomCol, &rt.GType, &rt.SRSID); err != nil {
		return rt, fmt.Errorf("gpkg_geometry_columns: %w", err)
	}
	var srsName, org, def string
	var orgID int
	var desc *string
	if err = db.QueryRow(`SELECT srs_name, organization, organization_coordsys_id, definition, description FROM gpkg_spatial_ref_sys WHERE srs_id = ?`, rt.SRSID).Scan(&srsName, &org, &orgID, &def, &desc); err != nil {
		return rt, fmt.Errorf("gpkg_spatial_ref_sys: %w", err)
	}
	d := "<null>"
	if desc != nil {
		d = *desc
	}
	rt.SRSRow = fmt.Sprintf("%s|%s|%d|%s|%s", srsName, org, orgID, def, d)
	ti, err := db.Query(fmt.Sprintf(`PRAGMA table_info('%s')`, t.Name))
	if err != nil {
		return rt, err
	}
	for ti.Next() {
		var cid, notnull, pk int
		var name, ctype string
		var dflt *string
		if err = ti.Scan(&cid, &name, &ctype, &notnull, &dflt, &pk); err != nil {
			ti.Close()
			return rt, err
		}
		rt.TableInfo += fmt.Sprintf("%d:%s:%s:%d:%v:%d;", cid, name, ctype, notnull, dflt == nil, pk)
	}
	ti.Close()
	err = db.QueryRow(`SELECT min_x, min_y, max_x, max_y FROM gpkg_contents WHERE table_name = ?`, t.reg()).Scan(&rt.Extent[0], &rt.Extent[1], &rt.Extent[2], &rt.Extent[3])
	rt.Contents = err == nil
	if err != nil {
		return rt, fmt.Errorf("gpkg_contents: %w", err)
	}
	names := []string{t.PKName}
	for _, c := range t.Cols {
		names = append(names, c.Name)
	}
	names = append(names, t.GeomCol)
	rows, err := db.Query(fmt.Sprintf(`SELECT %s FROM "%s" ORDER BY rowid`, strings.Join(names, ","), t.Name))
	if err != nil {
		return rt, err
	}
	defer rows.Close()
	for rows.Next() {
		vals := make([]any, len(names))
		ptrs := make([]any, len(names))
		for i := range vals {
			ptrs[i] = &vals[i]
		}
		if err = rows.Scan(ptrs...); err != nil {
			return rt, err
		}
		var r readRow
		r.PK, _ = vals[0].(int64)
		for _, v := range vals[1 : len(vals)-1] {
			if b, ok := v.([]byte); ok {
				v = string(b)
			}
			r.Vals = append(r.Vals, v)
		}
		blob, ok := vals[len(vals)-1].([]byte)
		if !ok {
			return rt, fmt.Errorf("geometry of row %d is not a blob but %T", r.PK, vals[len(vals)-1])
		}
		sb, err := gogpkg.DecodeGeometry(blob)
		if err != nil {
			return rt, fmt.Errorf("geometry of row %d: %w", r.PK, err)
		}
		r.Geom = sb.Geometry
		rt.Rows = append(rt.Rows, r)
	}
	if err = rows.Err(); err != nil {
		return rt, err
	}
	rr, err := db.Query(fmt.Sprintf(`SELECT id FROM "rtree_%s_%s" ORDER BY id`, t.Name, t.GeomCol))
	if err != nil {
		return rt, fmt.Errorf("rtree: %w", err)
	}
	defer rr.Close()
	for rr.Next() {
		var id int64
		if err = rr.Scan(&id); err != nil {
			return rt, err
		}
		rt.RtreeIDs = append(rt.RtreeIDs, id)
	}
	return rt, rr.Err()
}

// expectedRow is what a table should hold for one delivered feature.
type expectedRow struct {
	PK   int64
	Vals []any
	Geom geom.Geometry
}

func isEmptyGeom(g geom.Geometry) bool {
	e, err := geom.NewExtentFromGeometry(g)
	return err != nil || e == nil
}

// compareTable checks rows, spatial index, extent and metadata of a written table against the expectation.
func compareTable(rt readTable, t TableSpec, want []expectedRow, src *readTable) string {
	if len(rt.Rows) != len(want) {
		return fmt.Sprintf("table %s has %d rows, expected %d", t.Name, len(rt.Rows), len(want))
	}
	var rtree []int64
	var ext *geom.Extent
	for i, w := range want {
		r := rt.Rows[i]
		if r.PK != w.PK {
			return fmt.Sprintf("table %s row %d has key %d, expected %d (order or identity of the rows)", t.Name, i, r.PK, w.PK)
		}
		if len(r.Vals) != len(w.Vals) {
			return fmt.Sprintf("table %s row %d has %d attribute values, expected %d", t.Name, i, len(r.Vals), len(w.Vals))
		}
		for k := range w.Vals {
			if !sameValue(r.Vals[k], w.Vals[k]) {
				return fmt.Sprintf("table %s row with key %d, column %s: %#v, expected %#v", t.Name, w.PK, t.Cols[k].Name, r.Vals[k], w.Vals[k])
			}
		}
		if !reflect.DeepEqual(r.Geom, w.Geom) {
			return fmt.Sprintf("table %s row with key %d: geometry %v (%T), expected %v (%T)", t.Name, w.PK, r.Geom, r.Geom, w.Geom, w.Geom)
		}
		if !isEmptyGeom(w.Geom) {
			rtree = append(rtree, w.PK)
			e, _ := geom.NewExtentFromGeometry(w.Geom)
			if ext == nil {
				ext = e
			} else {
				ext.Add(e)
			}
		}
	}
	sort.Slice(rtree, func(i, j int) bool { return rtree[i] < rtree[j] })
	if !reflect.DeepEqual(rtree, rt.RtreeIDs) && !(len(rtree) == 0 && len(rt.RtreeIDs) == 0) {
		return fmt.Sprintf("table %s: the spatial index holds ids %v, rows with a non-empty geometry are %v", t.Name, rt.RtreeIDs, rtree)
	}
	if ext == nil {
		for _, p := range rt.Extent {
			if p != nil {
				return fmt.Sprintf("table %s: recorded extent %v although no non-empty geometry was written", t.Name, fmtExtent(rt.Extent))
			}
		}
	} else {
		for k, p := range rt.Extent {
			if p == nil || *p != ext[k] {
				return fmt.Sprintf("table %s: recorded extent %v, bounding box of the written geometries %v", t.Name, fmtExtent(rt.Extent), *ext)
			}
		}
	}
	if rt.GeomCol != t.GeomCol || (t.GTypeDecl == "" && !strings.EqualFold(rt.GType, t.GType)) || rt.SRSID != t.SRS { // (type names compare without regard to case)
		return fmt.Sprintf("table %s: geometry column %s type %s srs %d, source has %s %s %d", t.Name, rt.GeomCol, rt.GType, rt.SRSID, t.GeomCol, t.GType, t.SRS)
	}
	if src != nil {
		if rt.TableInfo != src.TableInfo {
			return fmt.Sprintf("table %s: columns %s, source has %s", t.Name, rt.TableInfo, src.TableInfo)
		}
		if rt.SRSRow != src.SRSRow {
			return fmt.Sprintf("table %s: spatial reference system row %.80s, source has %.80s", t.Name, rt.SRSRow, src.SRSRow)
		}
	}
	return ""
}

func fmtExtent(e [4]*float64) string {
	s := "["
	for _, p := range e {
		if p == nil {
			s += "NULL "
		} else {
			s += fmt.Sprintf("%v ", *p)
		}
	}
	return s + "]"
}

// ---------------------------------------------------------------------------------------------------------------
// generation

var identGen = rapid.StringMatching(`[a-z][a-z0-9_]{0,7}`)

func drawTableSkeleton(t *rapid.T, idx int, gtypes []string) TableSpec {
	ts := TableSpec{Name: fmt.Sprintf("t%d_%s", idx, identGen.Draw(t, "table")), PKName: rapid.SampledFrom([]string{"fid", "id", "ogc_fid"}).Draw(t, "pk"),
		GeomCol: rapid.SampledFrom([]string{"geom", "geometry", "shape"}).Draw(t, "geomcol"), GType: rapid.SampledFrom(gtypes).Draw(t, "gtype"),
		SRS: rapid.SampledFrom([]int{4326, 3857, 28992}).Draw(t, "srs")}
	nc := rapid.IntRange(0, 4).Draw(t, "cols")
	for i := 0; i < nc; i++ {
		ts.Cols = append(ts.Cols, ColSpec{Name: fmt.Sprintf("c%d_%s", i, identGen.Draw(t, "col")), Type: rapid.SampledFrom([]string{"INTEGER", "REAL", "TEXT", "INTEGER", "REAL", "TEXT", "DATETIME"}).Draw(t, "ctype"), NotNull: rapid.IntRange(0, 3).Draw(t, "notnull") == 0})
	}
	ts.GeomPos = rapid.IntRange(0, nc).Draw(t, "geompos")
	ts.GTypeCase = rapid.SampledFrom([]string{"", "", "", "", "", "", "", "lower", "title"}).Draw(t, "gtypeCase")
	return ts
}

func drawVals(t *rapid.T, cols []ColSpec) []any {
	vals := make([]any, len(cols))
	for i, c := range cols {
		if !c.NotNull && rapid.IntRange(0, 3).Draw(t, "null") == 0 {
			continue
		}
		switch c.Type {
		case "INTEGER":
			vals[i] = float64(rapid.Int64Range(-1<<40, 1<<40).Draw(t, "int"))
		case "REAL":
			vals[i] = rapid.SampledFrom([]float64{0, 1.5, -2.25, 1e-9, 12345.678, 3}).Draw(t, "real") + float64(rapid.IntRange(0, 1000).Draw(t, "r2"))/8
		case "DATETIME": // instants with milli-, micro- and nanosecond digits
			frac := rapid.SampledFrom([]string{"", ".5", ".123", ".123456", ".999999999", ".000001"}).Draw(t, "frac")
			zone := rapid.SampledFrom([]string{"Z", "Z", "Z", "+02:00", "-05:30", "+00:00", "+13:45"}).Draw(t, "zone") // local times with an offset denote instants too
			vals[i] = fmt.Sprintf("20%02d-%02d-%02dT%02d:%02d:%02d%s%s", rapid.IntRange(0, 40).Draw(t, "yy"), rapid.IntRange(1, 12).Draw(t, "mo"), rapid.IntRange(1, 28).Draw(t, "dd"),
				rapid.IntRange(0, 23).Draw(t, "hh"), rapid.IntRange(0, 59).Draw(t, "mi"), rapid.IntRange(0, 59).Draw(t, "ss"), frac, zone)
		default:
			vals[i] = rapid.StringMatching(`[a-zA-Z0-9 ,.'"%_-]{0,12}`).Draw(t, "text")
		}
	}
	return vals
}

func drawPt(t *rapid.T) [2]float64 {
	return [2]float64{float64(rapid.IntRange(-4000, 4000).Draw(t, "x")) / 8, float64(rapid.IntRange(-4000, 4000).Draw(t, "y")) / 8}
}

func drawPts(t *rapid.T, lo, hi int) [][2]float64 {
	n := rapid.IntRange(lo, hi).Draw(t, "npts")
	out := make([][2]float64, n)
	for i := range out {
		out[i] = drawPt(t)
	}
	return out
}

// drawGeom draws a geometry of the table's type; allowEmpty lets collections and polygons be empty.
func drawGeom(t *rapid.T, gtype string, allowEmpty bool) Geom {
	empty := allowEmpty && rapid.IntRange(0, 4).Draw(t, "empty") == 0
	g := Geom{T: gtype}
	if gtype == "GEOMETRY" || gtype == "GEOMETRYCOLLECTION" {
		g.T = rapid.SampledFrom([]string{"POINT", "LINESTRING", "POLYGON", "MULTIPOLYGON", "COLLECTION"}).Draw(t, "anyType")
	}
	switch g.T {
	case "POINT":
		g.C = [][][][2]float64{{{drawPt(t)}}}
	case "MULTIPOINT":
		if !empty {
			g.C = [][][][2]float64{{drawPts(t, 1, 4)}}
		}
	case "LINESTRING":
		if !empty {
			g.C = [][][][2]float64{{drawPts(t, 2, 5)}}
		}
	case "MULTILINESTRING":
		if !empty {
			n := rapid.IntRange(1, 3).Draw(t, "lines")
			ls := [][][2]float64{}
			for i := 0; i < n; i++ {
				ls = append(ls, drawPts(t, 2, 4))
			}
			g.C = [][][][2]float64{ls}
		}
	case "POLYGON":
		if !empty {
			g.C = [][][][2]float64{{drawPts(t, 3, 6)}}
		}
	case "COLLECTION": // a collection of a point and a polygon; C[0] holds the point, C[1] the polygon's rings
		if !empty {
			g.C = [][][][2]float64{{{drawPt(t)}}, {drawPts(t, 3, 5)}}
		}
	case "MULTIPOLYGON":
		if !empty {
			n := rapid.IntRange(1, 3).Draw(t, "polys")
			for i := 0; i < n; i++ {
				g.C = append(g.C, [][][2]float64{drawPts(t, 3, 5)})
			}
		}
	}
	return g
}

// codecRoundTrip passes a geometry through go-spatial's GeoPackage binary codec (not through the tool): the codec
// drops the closing point of a ring that repeats its first point, so equality is taken on decoded values.
func codecRoundTrip(g geom.Geometry) geom.Geometry {
	sb, err := gogpkg.NewBinary(0, g)
	if err != nil {
		panic(err)
	}
	b, err := sb.Encode()
	if err != nil {
		panic(err)
	}
	d, err := gogpkg.DecodeGeometry(b)
	if err != nil {
		panic(err)
	}
	return d.Geometry
}

var scratchCounter int64

// scratchDir gives a fresh directory under the driver's scratch area.
func scratchDir(prefix string) string {
	base := os.Getenv("VERIF_SCRATCH")
	if base == "" {
		base = filepath.Join(os.TempDir(), "verif-scratch")
	}
	d := filepath.Join(base, fmt.Sprintf("%s-%d-%d", prefix, os.Getpid(), atomic.AddInt64(&scratchCounter, 1)))
	if err := os.MkdirAll(d, 0o755); err != nil {
		panic(err)
	}
	return d
}

var _ = math.Abs
