package checks

import (
	"fmt"
	"math"
	"slices"
	"testing"

	"pgregory.net/rapid"

	"verifharness/gen"
	"verifharness/kernel"
	"verifharness/report"
)

var specC04 = report.Spec{Property: "C04", Check: "C04",
	Rule: "valid polygons as C01 (all shapes, holes, collapse-prone templates) x grids x ids x flags; oracle per returned tile matrix, all exact: (1) every output vertex lies in a pixel that holds an input vertex and is that pixel's centre, " +
		"(2) for every output edge the endpoints, the midpoint and every point where it crosses a half-pixel line have Chebyshev distance <= 1/2 pixel (+1e-10 units tolerance) to the input boundary (closed-box/segment separating-axis test, scaled integers), " +
		"(3) sample locations on a half-pixel lattice (generated odd pixel/8 offset) over the bounding box +- 2 pixels, plus per input ring the centre of its bounding box and the centroids of a fan of its triangles: every location farther than one pixel (Chebyshev) from the input boundary is inside the output (inside a shell with >= 3 vertices and outside its holes) iff it is inside the input (even-odd). " +
		"Non-trivial: >= 10 locations qualified for (3) and (the polygon has a hole, or the routed boundary passes a centre twice or has fewer centres than the input ring has vertices). Distinct by case content.",
	Assumptions: append([]string{"on grids whose extent does not divide evenly (WebMercatorQuad) the pixel grid of the deepest requested level is used, as the tool does; the deviation from the ideal grid is the subject of C03"}, specC01.Assumptions...)}

func genC04(t *rapid.T) SnapCase {
	c := drawValidCase(t, validOpts{maxHoles: 3, collapseBias: rapid.IntRange(0, 2).Draw(t, "bias") == 0}, gen.AnyGrid, 3)
	c.Extra = map[string]int64{"locOff": rapid.SampledFrom([]int64{1, 3, 5, 7}).Draw(t, "locOffX"), "locOffY": rapid.SampledFrom([]int64{1, 3, 5, 7}).Draw(t, "locOffY")}
	return c
}

// closedBoxMeets: the closed segment a-b has a point in the closed box [lo, hi] (separating axes, exact).
func closedBoxMeets(a, b, lo, hi P) bool {
	if max(a.X, b.X) < lo.X || min(a.X, b.X) > hi.X || max(a.Y, b.Y) < lo.Y || min(a.Y, b.Y) > hi.Y {
		return false
	}
	dx, dy := b.X-a.X, b.Y-a.Y
	if dx == 0 && dy == 0 {
		return true
	}
	o := func(c P) int { return kernel.CmpMul(dx, c.Y-a.Y, dy, c.X-a.X) }
	s1, s2, s3, s4 := o(P{X: lo.X, Y: lo.Y}), o(P{X: hi.X, Y: lo.Y}), o(P{X: hi.X, Y: hi.Y}), o(P{X: lo.X, Y: hi.Y})
	if (s1 > 0 && s2 > 0 && s3 > 0 && s4 > 0) || (s1 < 0 && s2 < 0 && s3 < 0 && s4 < 0) {
		return false
	}
	return true
}

// scaledBoundary is the input boundary translated by -origin and multiplied by m.
type scaledBoundary struct{ edges [][2]P }

func scaleBoundary(rings [][]P, origin P, m int64) (sb scaledBoundary, ok bool) {
	const lim = int64(1) << 61
	for _, r := range rings {
		n := len(r)
		for i := range r {
			a, b := r[i], r[(i+1)%n]
			ax, ay, bx, by := a.X-origin.X, a.Y-origin.Y, b.X-origin.X, b.Y-origin.Y
			for _, v := range []int64{ax, ay, bx, by} {
				if v > lim/m || v < -lim/m {
					return sb, false
				}
			}
			sb.edges = append(sb.edges, [2]P{{X: ax * m, Y: ay * m}, {X: bx * m, Y: by * m}})
		}
	}
	return sb, true
}

// within: some boundary edge meets the closed box of half size r around p (all in the scaled frame).
func (sb scaledBoundary) within(p P, r int64) bool {
	lo, hi := P{X: p.X - r, Y: p.Y - r}, P{X: p.X + r, Y: p.Y + r}
	for _, e := range sb.edges {
		if closedBoxMeets(e[0], e[1], lo, hi) {
			return true
		}
	}
	return false
}

func abs(a int64) int64 {
	if a < 0 {
		return -a
	}
	return a
}

func oracleC04(c SnapCase) (o report.Outcome) {
	a := analyse(c)
	if !scopeValid(a, &o) {
		return o
	}
	res := snapSafe(c)
	if res.Panic != nil {
		o.OutOfScope = true
		o.Label("snapping panicked (decided by C06/C09)")
		return o
	}
	norm := kernel.Normalise(a.fixed)
	for _, id := range c.IDs {
		li := a.level(id)
		lev := li.lev
		s := lev.Span()
		polys := res.Out[id]
		o.Label(visitsClass(li.maxVisits))
		collapses := li.maxVisits >= 2 || li.maxAll >= 2
		for i, ch := range li.chains {
			if len(ch) < len(a.fixed[i]) {
				collapses = true
			}
		}
		// (1) vertices
		for _, pg := range polys {
			for _, rg := range pg {
				for _, v := range rg {
					px := lev.OutPix(v)
					if !li.hot.Has(px) {
						o.Failf([]string{"vertex-not-hot"}, "tile matrix %d: output vertex %v lies in pixel %v, which holds no input vertex (hot pixels %v)", id, v, px, li.hot.Sorted())
						return o
					}
					ce := lev.Centre(px)
					tol := int64(2 + 2e10*(math.Nextafter(math.Max(math.Abs(v[0]), math.Abs(v[1])), math.Inf(1))-math.Max(math.Abs(v[0]), math.Abs(v[1]))))
					if abs(kernel.ToFixed(v[0])-ce.X) > tol || abs(kernel.ToFixed(v[1])-ce.Y) > tol {
						o.Failf([]string{"vertex-not-centre"}, "tile matrix %d: output vertex %v is not the centre (%v, %v) of its pixel %v", id, v, kernel.FromFixed(ce.X), kernel.FromFixed(ce.Y), px)
						return o
					}
				}
			}
		}
		// (2) edges stay within half a pixel of the input boundary
		for _, pg := range polys {
			for _, rg := range pg {
				pr := outRing(lev, rg)
				n := len(pr)
				edges := n
				if n == 2 {
					edges = 1
				}
				for i := 0; i < edges; i++ {
					p1, p2 := pr[i], pr[(i+1)%n]
					c1, c2 := lev.Centre(p1), lev.Centre(p2)
					di, dj := abs(p2.X-p1.X), abs(p2.Y-p1.Y)
					// sample parameters k/den: endpoints and midpoint (den 2), crossings of half-pixel lines in x (den 2*di) and in y (den 2*dj)
					for _, den := range []int64{2, 2 * di, 2 * dj} {
						if den == 0 {
							continue
						}
						if den > 64 { // long edges (many pixels): 65 evenly spaced points instead of every half-pixel crossing
							den = 64
						}
						m := 2 * den // frame: units of 1/(2*den) fixed point units, origin c1
						sb, ok := scaleBoundary(a.fixed, c1, m)
						if !ok {
							o.Label("edge sampling reduced (magnitude)")
							continue
						}
						for k := int64(0); k <= den; k++ {
							p := P{X: 2 * (c2.X - c1.X) * k, Y: 2 * (c2.Y - c1.Y) * k}
							if !sb.within(p, (s+2)*den) { // half a pixel plus one fixed point unit (1e-10) of tolerance
								tags := []string{"edge-far"}
								if !kernel.Explained(li.chains, p1, p2) {
									tags = append(tags, "invented-edge")
								}
								if li.maxVisits >= 3 {
									tags = append(tags, "maxVisits>=3")
								}
								o.Failf(tags, "tile matrix %d: the point at %d/%d of output edge %v-%v (pixels %v-%v) is farther than half a pixel (Chebyshev) from the input boundary; routed boundary %v; returned %v", id, k, den, rg[i], rg[(i+1)%n], p1, p2, li.chains, fmt.Sprint(polys))
								return o
							}
						}
					}
				}
			}
		}
		// (3) coverage away from the boundary
		b0, b1 := lev.Pixel(a.fixed[0][0]), lev.Pixel(a.fixed[0][0])
		for _, r := range a.fixed {
			for _, p := range r {
				q := lev.Pixel(p)
				b0, b1 = P{X: min(b0.X, q.X), Y: min(b0.Y, q.Y)}, P{X: max(b1.X, q.X), Y: max(b1.Y, q.Y)}
			}
		}
		lo, _ := lev.Box(P{X: b0.X - 2, Y: b0.Y - 2})
		nx, ny := (b1.X-b0.X+5)*2, (b1.Y-b0.Y+5)*2
		step := int64(1)
		for (nx/step)*(ny/step) > 1600 {
			step++
		}
		// frame: units of 1/8 fixed unit... keep integers: multiply everything by 8, origin lo
		sb, ok := scaleBoundary(a.fixed, lo, 8)
		if !ok {
			o.Label("coverage sampling skipped (magnitude)")
			continue
		}
		outRings := make([][][]P, len(polys))
		for pi, pg := range polys {
			for _, rg := range pg {
				pr := outRing(lev, rg)
				cr := make([]P, len(pr))
				for i, p := range pr {
					ce := lev.Centre(p)
					cr[i] = P{X: (ce.X - lo.X) * 8, Y: (ce.Y - lo.Y) * 8}
				}
				outRings[pi] = append(outRings[pi], cr)
			}
		}
		inRings := make([][]P, len(norm))
		for i, r := range norm {
			inRings[i] = make([]P, len(r))
			for j, p := range r {
				inRings[i][j] = P{X: (p.X - lo.X) * 8, Y: (p.Y - lo.Y) * 8}
			}
		}
		offX, offY := c.Extra["locOff"], c.Extra["locOffY"]
		if offX == 0 {
			offX = 1
		}
		if offY == 0 {
			offY = 3
		}
		qualified := 0
		// sample locations: the half-pixel lattice, plus for every input ring the centre of its bounding box and the
		// centroids of a fan of its triangles (small holes and islands are easily missed by the lattice)
		var locs []P
		for ix := int64(0); ix < nx; ix += step {
			for iy := int64(0); iy < ny; iy += step {
				// location = lo + (ix*s/2 + off*s/8) ; scaled by 8: ix*4*s + off*s
				locs = append(locs, P{X: ix*4*s + offX*s, Y: iy*4*s + offY*s})
			}
		}
		for _, r := range inRings {
			if len(r) < 3 {
				continue
			}
			mn, mx := r[0], r[0]
			for _, p := range r {
				mn, mx = P{X: min(mn.X, p.X), Y: min(mn.Y, p.Y)}, P{X: max(mx.X, p.X), Y: max(mx.Y, p.Y)}
			}
			locs = append(locs, P{X: (mn.X + mx.X) / 2, Y: (mn.Y + mx.Y) / 2})
			for i := 1; i+1 < len(r) && i < 12; i++ {
				locs = append(locs, P{X: (r[0].X + r[i].X + r[i+1].X) / 3, Y: (r[0].Y + r[i].Y + r[i+1].Y) / 3})
			}
		}
		{
			for _, p := range locs {
				if sb.within(p, 8*s) {
					continue
				}
				qualified++
				inIn := false
				for _, r := range inRings {
					if kernel.PointInRing(p, r) > 0 {
						inIn = !inIn
					}
				}
				inOut := false
				for _, rs := range outRings {
					if len(rs) == 0 || len(rs[0]) < 3 || kernel.PointInRing(p, rs[0]) < 0 {
						continue
					}
					covered := true
					for _, h := range rs[1:] {
						if len(h) >= 3 && kernel.PointInRing(p, h) >= 0 {
							covered = false
						}
					}
					if covered {
						inOut = true
					}
				}
				if inIn != inOut {
					tags := []string{"coverage"}
					if li.maxVisits >= 3 {
						tags = append(tags, "maxVisits>=3")
					}
					// root cause marker of known finding F12: a returned polygon whose shell is cancelled (wholly or along all of the hole's
					// vertices) by a hole that runs along it - both halves of a ring that collapsed onto a loop, attached to each other by
					// matchInnersToPolygons (which decides by vertex containment and takes the smallest shell that touches all vertices)
					// instead of the hole going to the polygon around them - and the location lies inside that loop,
					// is not covered by the input, but is covered by the output: what should have been cut out of the enclosing polygon
					// (the loop, and through it the holes of the islands inside) was not
					for _, rs := range outRings {
						if len(rs) < 2 || len(rs[0]) < 3 || kernel.PointInRing(p, rs[0]) < 0 {
							continue
						}
						cancelled := false
						for _, h := range rs[1:] {
							// the hole runs along its own shell: every vertex of it lies on the shell's boundary (identical rings included)
							onShell := len(h) >= 3
							for _, v := range h {
								if kernel.PointInRing(v, rs[0]) != 0 {
									onShell = false
									break
								}
							}
							if onShell {
								cancelled = true
							}
						}
						if cancelled && !inIn && inOut {
							tags = append(tags, "hole-in-cancelled-shell")
							break
						}
					}
					o.Failf(tags, "tile matrix %d: location (%v, %v) is farther than one pixel from the input boundary and inside the input: %v, but inside the output: %v; routed boundary %v; returned %v",
						id, kernel.FromFixed(lo.X)+float64(p.X)/8e10, kernel.FromFixed(lo.Y)+float64(p.Y)/8e10, inIn, inOut, li.chains, fmt.Sprint(polys))
					return o
				}
			}
		}
		if qualified >= 10 && (len(a.fixed) > 1 || collapses) {
			o.NonTrivial = true
		}
		if collapses {
			o.Label("collapses")
		}
		if len(a.fixed) > 1 {
			o.Label("has holes")
		}
	}
	return o
}

func TestC04(t *testing.T) { report.Run(t, specC04, genC04, oracleC04) }

// C04Far: the same oracle on the inputs where the tool's floating point helpers have the least room: nested shapes
// (holes in islands in holes, gaps that close) at the deepest addressable tile matrices of the built-in sets, where a pixel
// measures millimetres and ordinates reach 2e7. Finding F16 (ring areas that are pure rounding) lives here.
var specC04Far = report.Spec{Property: "C04", Check: "C04Far",
	Rule: "nested shapes (recursive C-shaped holes with closing gaps, holes in the islands, shuffled hole order), pinched shapes (two convex blobs with sloping edges joined by a neck of 0.5-2 pixels, 1-3 small holes hugging the boundary of a blob) and annuli on the built-in sets NetherlandsRDNewQuad, WebMercatorQuad, EuropeanETRS89_LAEAQuad, UPSArcticWGS84Quad, NZTM2000Quad, " +
		"first requested tile matrix among the four deepest addressable ones, placed anywhere in the extent (corners, root split, far side), one case in six pushed into the strip between the last addressable pixel and the border of the extent (refused by the tool today: counted out of scope when it panics, judged when it returns); oracle and non-trivial rule of C04. Distinct by case content.",
	Assumptions: specC04.Assumptions}

func genC04Far(t *rapid.T) SnapCase { return drawFarCase(t, false) }

// drawFarCase: shapes whose result depends on hole matching and ring areas (nested, pinched, annulus; collapse-prone templates
// when asked) at the deepest addressable tile matrices of the built-in quad sets. One case in six is pushed against the far end of
// the extent so that its outermost vertices lie in the strip between the last addressable pixel and the border (sets whose
// extent does not divide evenly into pixels).
func drawFarCase(t *rapid.T, collapse bool) SnapCase {
	grids := []gen.GridSpec{gen.WebMercator, gen.WebMercator, gen.RD, {Kind: "builtin", Name: "EuropeanETRS89_LAEAQuad"}, {Kind: "builtin", Name: "UPSArcticWGS84Quad"}, {Kind: "builtin", Name: "NZTM2000Quad"}}
	c := SnapCase{Grid: rapid.SampledFrom(grids).Draw(t, "grid")}
	g := c.Grid.MustBuild()
	top := min(g.MaxID(), maxAddressableID(g))
	c.IDs = []int{top - rapid.IntRange(0, min(3, top)).Draw(t, "depth")}
	if rapid.IntRange(0, 2).Draw(t, "second") == 0 {
		if other := rapid.IntRange(0, top).Draw(t, "otherID"); other != c.IDs[0] {
			c.IDs = append(c.IDs, other)
		}
	}
	c.Flags = gen.DrawFlags(t)
	c.Flags.Ignore = false
	var rings [][]P
	if collapse && rapid.Bool().Draw(t, "template") {
		rings, c.Q, c.Shape = drawShape(t, validOpts{maxHoles: 2, collapseBias: true, maxVerts: 24})
	} else {
		c.Q = rapid.SampledFrom([]int64{4, 4, 3, 7}).Draw(t, "q")
		switch rapid.IntRange(0, 5).Draw(t, "kind") {
		case 0:
			c.Shape, rings = "annulus", gen.Annulus(t, c.Q)
		case 1, 2:
			c.Shape, rings = "pinched", gen.Pinched(t, c.Q)
		default:
			c.Shape, rings = "nested", gen.Nested(t, c.Q)
		}
	}
	poly, anchor, ok := placeShape(t, g, c.IDs[:1], rings, c.Q)
	if !ok {
		c.Shape += "/unplaced"
		return c
	}
	c.Poly, c.Anchor = poly, anchor
	if rapid.IntRange(0, 5).Draw(t, "strip") == 2 {
		deepest := g.LevelOf(slices.Max(c.IDs))
		w := g.Res(deepest) << deepest // what the tool can address
		remX, remY := g.Span-w, g.SpanY-w
		if remX > 0 && remY > 0 {
			var maxX, maxY int64 = math.MinInt64, math.MinInt64
			for _, r := range c.Poly {
				for _, v := range r {
					maxX, maxY = max(maxX, kernel.ToFixed(v[0])), max(maxY, kernel.ToFixed(v[1]))
				}
			}
			var dx, dy int64
			ax := rapid.IntRange(0, 2).Draw(t, "stripAxis")
			if ax != 1 {
				dx = g.MinX + w + rapid.Int64Range(0, remX-1).Draw(t, "stripX") - maxX
			}
			if ax != 0 {
				dy = g.MinY + w + rapid.Int64Range(0, remY-1).Draw(t, "stripY") - maxY
			}
			for _, r := range c.Poly {
				for i, v := range r {
					x, _ := gen.ExactFloat(kernel.ToFixed(v[0]) + dx)
					y, _ := gen.ExactFloat(kernel.ToFixed(v[1]) + dy)
					r[i] = [2]float64{x, y}
				}
			}
			c.Anchor += "+strip"
		}
	}
	c.Extra = map[string]int64{"locOff": rapid.SampledFrom([]int64{1, 3, 5, 7}).Draw(t, "locOffX"), "locOffY": rapid.SampledFrom([]int64{1, 3, 5, 7}).Draw(t, "locOffY")}
	return c
}

func TestC04Far(t *testing.T) { report.Run(t, specC04Far, genC04Far, oracleC04) }
