package checks

import (
	"fmt"
	"os"
	"path/filepath"
	"runtime"
	"time"

	"github.com/go-spatial/geom"
	"github.com/pdok/texel/processing"
	"github.com/pdok/texel/processing/gpkg"

	"verifharness/report"
)

type sliceSource struct{ feats []processing.Feature }

func (s sliceSource) ReadFeatures(ch chan<- processing.Feature) {
	for _, f := range s.feats {
		ch <- f
	}
	close(ch)
}

func oracleC11Gpkg(c C11GpkgCase) (o report.Outcome) {
	captureCurrent(specC11Gpkg, c)
	defer clearCurrent(specC11Gpkg)
	old := runtime.GOMAXPROCS(max(c.Procs, 2))
	defer runtime.GOMAXPROCS(old)
	dir := scratchDir("c11gpkg")
	defer os.RemoveAll(dir)
	ts := TableSpec{Name: "t", PKName: "fid", GeomCol: "geom", GType: "POLYGON", SRS: 28992}
	for i := 0; i < c.NCols; i++ {
		ts.Cols = append(ts.Cols, ColSpec{Name: fmt.Sprintf("c%d", i), Type: []string{"INTEGER", "TEXT", "REAL"}[i%3]})
	}
	src := filepath.Join(dir, "schema.gpkg")
	if err := writeSource(src, []TableSpec{ts}); err != nil {
		panic(err)
	}
	s := gpkg.SourceGeopackage{}
	s.Init(src)
	tables := s.GetTableInfo()
	s.Close()
	targets := map[int]processing.Target{}
	var real []*gpkg.TargetGeopackage
	for _, id := range c.Targets {
		tg := &gpkg.TargetGeopackage{}
		tg.Init(filepath.Join(dir, fmt.Sprintf("target_%d.gpkg", id)), c.PageSize)
		if err := tg.CreateTables(tables); err != nil {
			panic(err)
		}
		tg.Table = tables[0]
		targets[id] = tg
		real = append(real, tg)
	}
	var feats []processing.Feature
	var rows []RowSpec
	for i := 0; i < c.N; i++ {
		var cols []interface{} // built by append, like the real reader: spare capacity
		cols = append(cols, int64(i+1))
		r := RowSpec{PK: int64(i + 1)}
		for k := range ts.Cols {
			var v any
			switch ts.Cols[k].Type {
			case "INTEGER":
				v = float64(i * 10)
			case "TEXT":
				v = fmt.Sprintf("name-%d", i)
			default:
				v = float64(i) / 4
			}
			r.Vals = append(r.Vals, v)
			cols = append(cols, colValue(ts.Cols[k], v))
		}
		rows = append(rows, r)
		feats = append(feats, &fakeFeature{idx: i, cols: cols, g: markerPolygon(i, 0, -1, 0)})
	}
	snapFn := func(p geom.Polygon, ids []int) map[int][]geom.Polygon {
		out := map[int][]geom.Polygon{}
		for _, id := range ids {
			out[id] = []geom.Polygon{markerPolygon(int(p[0][0][0]), 0, id, 0)}
		}
		return out
	}
	done := make(chan struct{})
	go func() { processing.ProcessFeatures(sliceSource{feats}, targets, snapFn); close(done) }()
	select {
	case <-done:
	case <-time.After(hangLimit()):
		hangExit(specC11Gpkg, c, "ProcessFeatures with GeoPackage targets did not return")
	}
	for _, tg := range real {
		tg.Close()
	}
	o.Label("targets=%d", len(c.Targets))
	o.NonTrivial = len(c.Targets) >= 2 && c.N >= 5
	for _, id := range c.Targets {
		db, err := openDB(filepath.Join(dir, fmt.Sprintf("target_%d.gpkg", id)))
		if err != nil {
			panic(err)
		}
		rt, err := readBack(db, ts)
		db.Close()
		if err != nil {
			o.Failf([]string{"readback"}, "target %d: %v", id, err)
			return o
		}
		var want []expectedRow
		for i, r := range rows {
			w := expectedRow{PK: r.PK, Geom: codecRoundTrip(markerPolygon(i, 0, id, 0))}
			for k, col := range ts.Cols {
				w.Vals = append(w.Vals, colValue(col, r.Vals[k]))
			}
			want = append(want, w)
		}
		if why := compareTable(rt, ts, want, nil); why != "" {
			o.Failf([]string{"table"}, "target for tile matrix %d (targets %v): %s", id, c.Targets, why)
			return o
		}
	}
	return o
}
