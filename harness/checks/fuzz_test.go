package checks

import (
	"encoding/json"
	"fmt"
	"os"
	"path/filepath"
	"testing"

	"verifharness/gen"
	"verifharness/report"
)

// Native (coverage guided) fuzz targets, thorough tier only. The semantic oracle sits inside the target; a failing input is
// written as an ordinary replay file so that it goes through the same replay path as every other failure.

func fuzzFail(t *testing.T, spec report.Spec, c any, o report.Outcome) {
	js, _ := json.Marshal(c)
	rf := report.ReplayFile{Property: spec.Property, Check: spec.Check, Expect: "pass", Failure: o.Fail, Tags: o.Tags, Case: js}
	b, _ := json.MarshalIndent(rf, "", " ")
	_ = os.WriteFile(filepath.Join(report.OutDir(), fmt.Sprintf("FAIL-%s-%sFuzz-shard0.json", spec.Property, spec.Check)), b, 0o644)
	t.Fatalf("property %s violated: %s", spec.Property, o.Fail)
}

// fuzzPolygon decodes bytes into a case: flags and grid from the first byte, then pairs of bytes as quarter pixel lattice
// positions in a 4x4 pixel window, 255 separating rings.
func fuzzPolygon(data []byte) (c SnapCase, ok bool) {
	if len(data) == 0 || len(data) > 600 {
		return c, false
	}
	c = SnapCase{Q: 4, IDs: []int{0}}
	c.Flags.Keep, c.Flags.Reverse = data[0]&1 != 0, data[0]&2 != 0
	if data[0]&4 != 0 {
		c.Grid = gen.GridSpec{Kind: "synthetic", NTM: 2, PxLog2: 0, OX: -8, OY: 24}
		c.IDs = []int{1, 0}
	} else {
		c.Grid = gen.GridSpec{Kind: "synthetic", NTM: 1, PxLog2: 0}
	}
	ring := [][2]float64{}
	rest := data[1:]
	for i := 0; i+1 < len(rest); i += 2 {
		if rest[i] == 255 {
			c.Poly = append(c.Poly, ring)
			ring = [][2]float64{}
			i--
			continue
		}
		ring = append(ring, [2]float64{c.Grid.OX + 4 + float64(rest[i]%17)/4, c.Grid.OY + 4 + float64(rest[i+1]%17)/4})
	}
	c.Poly = append(c.Poly, ring)
	if len(c.Poly) > 4 {
		c.Poly = c.Poly[:4]
	}
	return c, true
}

var fuzzSeeds = [][]byte{
	{0, 2, 2, 6, 2, 6, 6, 2, 6},
	{1, 2, 2, 6, 6, 2, 2, 6, 6, 2, 2, 10, 10, 6, 6, 10, 10},                // zig-zag between two centres
	{3, 2, 2, 6, 6, 10, 2, 6, 6, 2, 2, 255, 6, 6, 10, 10, 6, 10},           // two rings, back-track
	{2, 0, 0, 16, 0, 16, 16, 0, 16, 255, 4, 4, 4, 8, 8, 8, 8, 4},           // shell with hole on pixel borders
	{7, 2, 2, 6, 6, 2, 2, 6, 6, 2, 2, 6, 6, 10, 10, 6, 6, 10, 10, 6, 6, 2}, // repeated segments
	{6, 0, 0, 16, 0, 16, 16, 0, 16, 255, 1, 1, 15, 1, 15, 15, 1, 15},       // thin frame: shell and hole snap to the same ring
	{5},
}

// FuzzC05: the structural invariants of C05 under coverage guidance.
func FuzzC05(f *testing.F) {
	for _, s := range fuzzSeeds {
		f.Add(s)
	}
	f.Fuzz(func(t *testing.T, data []byte) {
		c, ok := fuzzPolygon(data)
		if !ok {
			return
		}
		if o := oracleC05(c); o.Fail != "" {
			fuzzFail(t, specC05, c, o)
		}
	})
}

// FuzzC18 / FuzzC01 / FuzzC04: the same byte decoding under the oracles over VALID polygons (the oracle sets invalid ones aside):
// coverage guidance looks for valid shapes in a 4x4 pixel window that take new paths through splitRing, kmpDeduplicate,
// dedupeInnersOuters and matchInnersToPolygons. Failures that carry the signature of an open known finding are not reported.
func fuzzValid(f *testing.F, spec report.Spec, oracle func(SnapCase) report.Outcome) {
	for _, s := range fuzzSeeds {
		f.Add(s)
	}
	f.Add([]byte{4, 0, 0, 16, 0, 16, 16, 0, 16, 255, 2, 2, 2, 14, 14, 14, 14, 9, 12, 9, 12, 12, 4, 12, 4, 4, 12, 4, 12, 7, 14, 7, 14, 2, 255, 6, 6, 6, 10, 10, 10, 10, 6}) // C-shaped hole around a hole
	f.Add([]byte{0, 0, 0, 7, 0, 7, 3, 9, 3, 9, 0, 16, 0, 16, 8, 9, 8, 9, 5, 7, 5, 7, 8, 0, 8})                                                                             // two lobes and a neck
	f.Fuzz(func(t *testing.T, data []byte) {
		c, ok := fuzzPolygon(data)
		if !ok {
			return
		}
		c.Extra = map[string]int64{"locOff": 1 + 2*int64(data[0]>>4&3), "locOffY": 1 + 2*int64(data[0]>>6&3)}
		if o := oracle(c); o.Fail != "" && !report.MatchesOpenFinding(spec.Property, o) {
			fuzzFail(t, spec, c, o)
		}
	})
}

func FuzzC18(f *testing.F) { fuzzValid(f, specC18, oracleC18) }
func FuzzC01(f *testing.F) { fuzzValid(f, specC01, oracleC01) }
func FuzzC04(f *testing.F) { fuzzValid(f, specC04, oracleC04) }

// FuzzC06: bytes -> ring structure on the quarter pixel lattice of a 4x4 pixel window -> SnapPolygon.
func FuzzC06(f *testing.F) {
	for _, s := range fuzzSeeds {
		f.Add(s)
	}
	f.Fuzz(func(t *testing.T, data []byte) {
		c, ok := fuzzPolygon(data)
		if !ok {
			return
		}
		if o := oracleC06(c); o.Fail != "" {
			fuzzFail(t, specC06, c, o)
		}
	})
}

// FuzzC16: the document text itself.
func FuzzC16(f *testing.F) {
	loadDocs()
	for _, n := range docNames {
		f.Add(docsBytes[n])
	}
	f.Add([]byte(`{"crs":"http://www.opengis.net/def/crs/EPSG/0/3857","tileMatrices":[{"id":"0","scaleDenominator":1,"cellSize":1,"pointOfOrigin":[0,0],"tileWidth":1,"tileHeight":1,"matrixWidth":1,"matrixHeight":1}]}`))
	f.Add([]byte(`{"crs":{"wkt":{"id":{"authority":"EPSG","code":"1"}}},"orderedAxes":["X","Y"],"boundingBox":{"lowerLeft":[0,0],"upperRight":[1,1],"crs":"urn:ogc:def:crs:EPSG::1"},"tileMatrices":[{"id":"0","scaleDenominator":1,"cellSize":1,"pointOfOrigin":[0,0,0],"tileWidth":-1,"tileHeight":1e300,"matrixWidth":1.5,"matrixHeight":1,"variableMatrixWidths":[{"coalesce":-2,"minTileRow":0,"maxTileRow":0}]}]}`))
	f.Fuzz(func(t *testing.T, data []byte) {
		if len(data) > 1<<16 {
			return
		}
		c := DocCase{Raw: string(data)}
		if len(data) == 0 {
			return
		}
		if o := oracleC16(c); o.Fail != "" {
			fuzzFail(t, specC16, c, o)
		}
	})
}

// FuzzC17: a pair of addresses.
func FuzzC17(f *testing.F) {
	for _, v := range []uint64{0, 1, 0xFFFF, 0x10000, 0xFFFFFFFF, 0x100000000, 0xAAAAAAAA, 0x55555555, 1 << 40} {
		f.Add(v, ^v&0xFFFFFFFF)
	}
	f.Fuzz(func(t *testing.T, x, y uint64) {
		if why := checkZ(x, y); why != "" {
			fuzzFail(t, specC17, ZCase{A: x, C: y}, report.Outcome{Fail: why})
		}
	})
}
