package checks

import (
	"encoding/binary"
	"fmt"
	"os"
	"sort"
	"strings"
	"testing"
)

// TestZZMerge counts the distinct 64 bit hashes in the files named by VERIF_MERGE (used by the driver to merge shards).
func TestZZMerge(t *testing.T) {
	list := os.Getenv("VERIF_MERGE")
	if list == "" {
		t.Skip("driver helper")
	}
	var all []uint64
	for _, f := range strings.Split(list, ",") {
		b, err := os.ReadFile(f)
		if err != nil {
			continue
		}
		for i := 0; i+8 <= len(b); i += 8 {
			all = append(all, binary.LittleEndian.Uint64(b[i:]))
		}
	}
	sort.Slice(all, func(i, j int) bool { return all[i] < all[j] })
	n := 0
	for i := range all {
		if i == 0 || all[i] != all[i-1] {
			n++
		}
	}
	fmt.Printf("MERGED %d\n", n)
}
