package checks

import (
	"bufio"
	"encoding/json"
	"fmt"
	"hash/fnv"
	"os"
	"os/exec"
	"path/filepath"
	"reflect"
	"runtime"
	"sync"
	"testing"

	"github.com/go-spatial/geom"
	"github.com/pdok/texel/snap"
	"pgregory.net/rapid"

	"verifharness/gen"
	"verifharness/kernel"
	"verifharness/report"
)

var specC07 = report.Spec{Property: "C07", Check: "C07",
	Rule: "determinism: arbitrary polygons (as C05), valid polygons with 0-3 holes (as C01) and, 1 case in 100 (thorough: 400), a valid star shaped polygon of 520-2600 (thorough: 4000) vertices (half of them 2048 and more) several hundred pixels wide, 1 case in 500 (thorough 250) a 'sieve' (two lobes, up to 700 / thorough 2400 holes) x grids x 1-4 ids given in random order x flags. Oracle (metamorphic): (a) three in-process repetitions (GOMAXPROCS as started, 1 and 8) return deeply equal maps, what a call returned does not change while another (shifted) polygon is snapped afterwards, and a digest of the output of up to 3000 multi-level/multi-ring cases per run is recomputed by a second process (Go randomises map iteration per range statement and per process) and must be equal; " +
		"(b) valid polygons: for every non-empty subset of rings (more than 6 rings: all, every second, every third, the shell only) given in the opposite direction the output is deeply equal (rings without orientation - one or two vertices or exactly zero area - may come back in either direction); (c) valid polygons: toggling ReverseWindingOrder yields the same tile matrices, polygons and rings in the same positions, each ring with >= 3 vertices being the reverse (as a cyclic sequence) of its counterpart, 1-2 vertex rings equal as sets; " +
		"(d) the same polygon with all rings laid out as consecutive windows of one coordinate buffer (spare capacity of each ring reaching into the next) returns deeply equal geometry and leaves the buffer, including sentinel slots behind the last ring, untouched; " +
		"(e) 1 case in 8: 24 repetitions spread over 6 goroutines running at the same time (valid polygons: alternating with the all-rings-reversed writing) return the geometry of the call that ran alone. " +
		"Non-trivial: >= 2 ids, or >= 2 rings, or the result has more polygons/rings than the input (a split). Distinct by case content.",
	Assumptions: []string{"the second process is the same test binary started by the check itself with the recorded cases"}}

type C07Case struct {
	SnapCase
	Valid bool `json:"valid"`
}

// bigStarCase draws a valid star shaped polygon with hundreds to thousands of vertices (sizes that small generators never reach).
func bigStarCase(t *rapid.T) SnapCase {
	c := SnapCase{Grid: rapid.SampledFrom([]gen.GridSpec{gen.RD, gen.RD, gen.WebMercator}).Draw(t, "bigGrid"), Q: 4, Shape: "big-star"}
	g := c.Grid.MustBuild()
	c.IDs = gen.IDs(t, g, 3, min(maxAddressableID(g), 16))
	c.Flags = gen.DrawFlags(t)
	c.Flags.Ignore = false
	bigN := rapid.IntRange(520, 2047).Draw(t, "bigN")
	if rapid.Bool().Draw(t, "bigger") { // (2048 is a likely size for pooled or pre-sized buffers; rapid's ranges favour their lower end)
		bigN = rapid.IntRange(2048, report.Scale(2600, 4000)).Draw(t, "biggerN")
	}
	ring, _ := gen.BigStar(t, bigN)
	if poly, anchor, ok := placeShape(t, g, c.IDs, [][]P{ring}, 4); ok {
		c.Poly, c.Anchor = poly, anchor
	}
	return c
}

func genC07(t *rapid.T) C07Case {
	if rapid.IntRange(0, report.Scale(100, 400)).Draw(t, "big") == 37 { // (rapid favours small values: pick one from the middle)
		return C07Case{SnapCase: bigStarCase(t), Valid: true}
	}
	if rapid.IntRange(0, report.Scale(500, 250)).Draw(t, "sieve") == 113 {
		// hundreds (thorough: up to 2400) of holes in a shell that splits in two: what is done per ring in a loop, or handed to workers from some count on
		sc := SnapCase{Grid: gen.RD, Q: 4, Shape: "sieve"}
		g := sc.Grid.MustBuild()
		sc.IDs = []int{rapid.IntRange(3, 14).Draw(t, "sieveID")}
		sc.Flags = gen.DrawFlags(t)
		sc.Flags.Ignore = false
		rings := gen.Sieve(t, 4, report.Scale(700, 2400))
		if poly, anchor, ok := placeShape(t, g, sc.IDs, rings, 4); ok {
			sc.Poly, sc.Anchor = poly, anchor
		}
		return C07Case{SnapCase: sc, Valid: true}
	}
	var c C07Case
	if rapid.Bool().Draw(t, "validPolygon") {
		c = C07Case{SnapCase: drawValidCase(t, validOpts{maxHoles: 3, collapseBias: rapid.Bool().Draw(t, "bias")}, gen.AnyGrid, 4), Valid: true}
	} else {
		c = C07Case{SnapCase: drawArbCase(t, gen.AnyGridWide, 4, 40)}
	}
	if rapid.IntRange(0, 7).Draw(t, "concurrent") == 3 {
		if c.Extra == nil {
			c.Extra = map[string]int64{}
		}
		c.Extra["concurrent"] = 1
	}
	return c
}

func deepCopyOut(out map[int][]geom.Polygon) map[int][]geom.Polygon {
	cp := make(map[int][]geom.Polygon, len(out))
	for id, polys := range out {
		ps := make([]geom.Polygon, len(polys))
		for i, pg := range polys {
			ps[i] = clonePoly(pg)
			if pg == nil {
				ps[i] = nil
			}
		}
		cp[id] = ps
	}
	return cp
}

func digest(out map[int][]geom.Polygon) uint64 {
	h := fnv.New64a()
	for _, id := range sortedIDs(out) {
		fmt.Fprintf(h, "%d:%v;", id, out[id])
	}
	return h.Sum64()
}

var (
	c07Mu     sync.Mutex
	c07Cases  []json.RawMessage
	c07Digest []uint64
)

// sameGeometry: deep equality, except that a ring without orientation (one or two vertices, or exactly zero area: the
// statement only fixes the direction of rings with non-zero area) may be listed in either direction.
func sameGeometry(a *analysis, x, y map[int][]geom.Polygon) bool {
	if len(x) != len(y) {
		return false
	}
	for id, px := range x {
		py, ok := y[id]
		if !ok || len(px) != len(py) {
			return false
		}
		lev := kernel.Leveled{G: a.g, Level: a.g.LevelOf(id), Deepest: a.deepest}
		for i := range px {
			if len(px[i]) != len(py[i]) {
				return false
			}
			for r := range px[i] {
				rx, ry := px[i][r], py[i][r]
				if reflect.DeepEqual(rx, ry) {
					continue
				}
				if len(rx) != len(ry) {
					return false
				}
				if len(rx) >= 3 && kernel.Area2Sign(outRing(lev, rx)) != 0 {
					return false
				}
				if !reflect.DeepEqual(rx, kernel.Reversed(ry)) && !cyclicReverseEqual(rx, ry) {
					return false
				}
			}
		}
	}
	return true
}

func cyclicReverseEqual(a, b [][2]float64) bool {
	n := len(a)
	if n != len(b) {
		return false
	}
	if n < 3 {
		as, bs := map[[2]float64]bool{}, map[[2]float64]bool{}
		for i := range a {
			as[a[i]], bs[b[i]] = true, true
		}
		return reflect.DeepEqual(as, bs)
	}
	for s := 0; s < n; s++ {
		ok := true
		for i := 0; i < n; i++ {
			if a[i] != b[((s-i)%n+n)%n] {
				ok = false
				break
			}
		}
		if ok {
			return true
		}
	}
	return false
}

func oracleC07(c C07Case) (o report.Outcome) {
	a := analyse(c.SnapCase)
	o.Label("grid=%s", gridClass(c.Grid))
	if c.Valid {
		if !scopeValid(a, &o) {
			return o
		}
		o.Label("valid polygon")
	} else if !a.inside {
		o.OutOfScope = true
		o.Label("vertex outside the grid")
		return o
	}
	first := snapSafe(c.SnapCase)
	if first.Panic != nil {
		o.OutOfScope = true
		o.Label("snapping panicked (decided by C06)")
		return o
	}
	// repetitions, under different numbers of usable CPUs (the result may not depend on the environment it runs in)
	for rep, procs := range []int{1, 8} {
		old := runtime.GOMAXPROCS(procs)
		again := snapSafe(c.SnapCase)
		runtime.GOMAXPROCS(old)
		if again.Panic != nil || !reflect.DeepEqual(first.Out, again.Out) {
			o.Failf([]string{"nondeterministic"}, "repetition %d (GOMAXPROCS=%d) returned different geometry: first %.600s, then %.600s (panic %v)", rep+2, procs, fmt.Sprint(first.Out), fmt.Sprint(again.Out), again.Panic)
			return o
		}
	}
	if c.Shape == "big-star" {
		o.Label("big ring (>= 520 vertices)")
	}
	// (d) the way the polygon is laid out in memory is part of how it is written down: all rings as consecutive windows of one
	// buffer (each ring's spare capacity reaches into the next ring) must give the same result and leave the buffer as it was
	if len(c.Poly) > 0 {
		total := 0
		for _, r := range c.Poly {
			total += len(r)
		}
		buf := make([][2]float64, 0, total+3)
		flat := make(geom.Polygon, len(c.Poly))
		for i, r := range c.Poly {
			start := len(buf)
			buf = append(buf, r...)
			flat[i] = buf[start:len(buf)] // capacity runs on to the end of buf
		}
		sentinel := [2]float64{-7.25e300, 7.25e300}
		buf = buf[:cap(buf)]
		for i := total; i < len(buf); i++ {
			buf[i] = sentinel
		}
		before := append([][2]float64{}, buf...)
		var res SnapResult
		func() {
			defer func() {
				if e := recover(); e != nil {
					res.Panic = e
				}
			}()
			res.Out = snap.SnapPolygon(flat, a.g.TMS, append([]int{}, c.IDs...), c.config())
		}()
		if res.Panic != nil || !reflect.DeepEqual(first.Out, res.Out) {
			o.Failf([]string{"memory-layout"}, "the same polygon with its rings laid out in one shared buffer returns different geometry: separate slices %.600s, shared buffer %.600s (panic %v)", fmt.Sprint(first.Out), fmt.Sprint(res.Out), res.Panic)
			return o
		}
		if !reflect.DeepEqual(before, buf) {
			o.Failf([]string{"input-modified"}, "SnapPolygon wrote into the caller's coordinate buffer: before %.600s, after %.600s", fmt.Sprint(before), fmt.Sprint(buf))
			return o
		}
		for i, r := range c.Poly {
			if len(flat[i]) != len(r) {
				o.Failf([]string{"input-modified"}, "SnapPolygon changed the caller's polygon: ring %d had %d vertices, has %d", i, len(r), len(flat[i]))
				return o
			}
		}
	}
	// (e) repetitions that overlap in time (several goroutines of one process) are repetitions too
	if c.Extra["concurrent"] == 1 {
		o.Label("concurrent repetitions")
		variants := [][][][2]float64{c.Poly}
		if c.Valid && len(c.Poly) > 0 { // the same polygon with every ring given in the opposite direction
			rev := make([][][2]float64, len(c.Poly))
			for i, r := range c.Poly {
				rev[i] = kernel.Reversed(r)
			}
			variants = append(variants, rev)
		}
		const workers, reps = 6, 4
		results := make([]SnapResult, workers*reps)
		var wg sync.WaitGroup
		for w := 0; w < workers; w++ {
			wg.Add(1)
			go func(w int) {
				defer wg.Done()
				for r := 0; r < reps; r++ {
					results[w*reps+r] = snapWith(c.SnapCase, variants[(w+r)%len(variants)], c.IDs, c.config())
				}
			}(w)
		}
		wg.Wait()
		for i, res := range results {
			if res.Panic != nil || !sameGeometry(a, first.Out, res.Out) {
				o.Failf([]string{"concurrent"}, "a repetition running at the same time as others (goroutine %d, repetition %d) returned different geometry: alone %.600s, concurrently %.600s (panic %v)", i/reps, i%reps, fmt.Sprint(first.Out), fmt.Sprint(res.Out), res.Panic)
				return o
			}
		}
	}
	// what was returned belongs to the caller: it must not change when another polygon is snapped afterwards
	if len(c.Poly) > 0 && len(c.Poly[0]) > 0 {
		saved := deepCopyOut(first.Out)
		px := float64(a.g.PixelSpan(a.deepest, a.deepest)) / 1e10
		moved := make([][][2]float64, len(c.Poly))
		for i, r := range c.Poly {
			moved[i] = make([][2]float64, len(r))
			for j, v := range r {
				moved[i][j] = [2]float64{v[0] + 3*px, v[1] + 2*px}
			}
		}
		cfg := c.config()
		cfg.IgnoreOutsideGrid = true
		_ = snapWith(c.SnapCase, moved, c.IDs, cfg)
		if !reflect.DeepEqual(saved, first.Out) {
			o.Failf([]string{"aliasing"}, "the geometry returned by one call changed while another polygon was snapped (shared buffers): was %.500s, is now %.500s", fmt.Sprint(saved), fmt.Sprint(first.Out))
			return o
		}
	}
	nOutRings := 0
	for _, polys := range first.Out {
		n := 0
		for _, pg := range polys {
			n += len(pg)
		}
		nOutRings = max(nOutRings, n)
	}
	split := nOutRings > len(c.Poly)
	if len(c.IDs) >= 2 || len(c.Poly) >= 2 || split {
		o.NonTrivial = true
		if split {
			o.Label("split")
		}
		c07Mu.Lock()
		if len(c07Cases) < 3000 && os.Getenv("VERIF_C07_CHILD") == "" {
			js, _ := json.Marshal(c)
			c07Cases = append(c07Cases, js)
			c07Digest = append(c07Digest, digest(first.Out))
		}
		c07Mu.Unlock()
	}
	if !c.Valid {
		return o
	}
	// (b) every non-empty subset of rings reversed
	nr := len(c.Poly)
	var subsets []func(i int) bool
	var names []string
	if nr <= 6 {
		for mask := 1; mask < 1<<nr; mask++ {
			m := mask
			subsets = append(subsets, func(i int) bool { return m&(1<<i) != 0 })
			names = append(names, fmt.Sprintf("%b", m))
		}
	} else { // hundreds of rings (sieve): all of them, every second one, every third one, only the shell
		subsets = []func(i int) bool{func(int) bool { return true }, func(i int) bool { return i%2 == 1 }, func(i int) bool { return i%3 == 0 }, func(i int) bool { return i == 0 }}
		names = []string{"all", "every second", "every third", "shell only"}
	}
	for k, rev := range subsets {
		poly := make([][][2]float64, nr)
		for i, r := range c.Poly {
			if rev(i) {
				poly[i] = kernel.Reversed(r)
			} else {
				poly[i] = r
			}
		}
		res := snapWith(c.SnapCase, poly, c.IDs, c.config())
		if res.Panic != nil || !sameGeometry(a, first.Out, res.Out) {
			o.Failf([]string{"ring-direction"}, "with rings %s given in the opposite direction the result differs: original %.1500s, reversed input %.1500s (panic %v)", names[k], fmt.Sprint(first.Out), fmt.Sprint(res.Out), res.Panic)
			return o
		}
	}
	// (c) toggling the reverse flag
	cfg := c.config()
	cfg.ReverseWindingOrder = !cfg.ReverseWindingOrder
	tog := snapWith(c.SnapCase, c.Poly, c.IDs, cfg)
	if tog.Panic != nil {
		o.Failf([]string{"reverse-flag"}, "toggling ReverseWindingOrder panicked: %v", tog.Panic)
		return o
	}
	bad := func(why string) {
		o.Failf([]string{"reverse-flag"}, "toggling ReverseWindingOrder changes more than the ring directions: %s; before %v, after %v", why, first.Out, tog.Out)
	}
	if len(tog.Out) != len(first.Out) {
		bad("different tile matrices")
		return o
	}
	for id, polys := range first.Out {
		tp, ok := tog.Out[id]
		if !ok || len(tp) != len(polys) {
			bad(fmt.Sprintf("tile matrix %d: different polygon count", id))
			return o
		}
		for pi := range polys {
			if len(polys[pi]) != len(tp[pi]) {
				bad(fmt.Sprintf("tile matrix %d polygon %d: different ring count", id, pi))
				return o
			}
			for ri := range polys[pi] {
				if !cyclicReverseEqual(polys[pi][ri], tp[pi][ri]) {
					bad(fmt.Sprintf("tile matrix %d polygon %d ring %d is not the reverse of its counterpart", id, pi, ri))
					return o
				}
			}
		}
	}
	return o
}

func TestC07(t *testing.T) {
	report.Run(t, specC07, genC07, oracleC07)
	if t.Failed() || len(c07Cases) == 0 {
		return
	}
	// second process: recompute the digests
	dir := report.OutDir()
	in := filepath.Join(dir, fmt.Sprintf("c07-cases-shard%d.jsonl", report.Shard()))
	f, err := os.Create(in)
	if err != nil {
		t.Fatal(err)
	}
	w := bufio.NewWriter(f)
	for _, js := range c07Cases {
		_, _ = w.Write(js)
		_ = w.WriteByte('\n')
	}
	_ = w.Flush()
	_ = f.Close()
	out := in + ".digests"
	cmd := exec.Command(os.Args[0], "-test.run", "^TestC07Child$", "-test.count=1")
	cmd.Env = append(os.Environ(), "VERIF_C07_CHILD="+in, "VERIF_C07_OUT="+out)
	if b, err := cmd.CombinedOutput(); err != nil {
		t.Fatalf("second process failed: %v\n%s", err, b)
	}
	var got []uint64
	b, _ := os.ReadFile(out)
	if err := json.Unmarshal(b, &got); err != nil || len(got) != len(c07Digest) {
		t.Fatalf("second process returned %d digests for %d cases (%v)", len(got), len(c07Digest), err)
	}
	for i := range got {
		if got[i] != c07Digest[i] {
			var c C07Case
			_ = json.Unmarshal(c07Cases[i], &c)
			rf := report.ReplayFile{Property: "C07", Check: "C07", Expect: "pass", Failure: "a second process returned different geometry for the same case (digest mismatch)", Tags: []string{"cross-process"}, Case: c07Cases[i]}
			jb, _ := json.MarshalIndent(rf, "", " ")
			_ = os.WriteFile(filepath.Join(dir, fmt.Sprintf("FAIL-C07-C07-shard%d.json", report.Shard())), jb, 0o644)
			t.Fatalf("property C07 violated: a second process returned different geometry for case %d", i)
		}
	}
	report.Note(specC07, "cross_process_cases", len(got))
}

// TestC07Child is the second process.
func TestC07Child(t *testing.T) {
	in := os.Getenv("VERIF_C07_CHILD")
	if in == "" {
		t.Skip("only as the second process of TestC07")
	}
	f, err := os.Open(in)
	if err != nil {
		t.Fatal(err)
	}
	defer f.Close()
	sc := bufio.NewScanner(f)
	sc.Buffer(make([]byte, 1<<20), 1<<26)
	var ds []uint64
	for sc.Scan() {
		var c C07Case
		if err := json.Unmarshal(sc.Bytes(), &c); err != nil {
			t.Fatal(err)
		}
		ds = append(ds, digest(snapSafe(c.SnapCase).Out))
	}
	b, _ := json.Marshal(ds)
	if err := os.WriteFile(os.Getenv("VERIF_C07_OUT"), b, 0o644); err != nil {
		t.Fatal(err)
	}
}
