package checks

import (
	"errors"
	"fmt"
	"math"
	"strings"
	"testing"

	"github.com/go-spatial/geom"
	"github.com/pdok/texel/pointindex"
	"pgregory.net/rapid"

	"verifharness/gen"
	"verifharness/kernel"
	"verifharness/report"
)

var specC09 = report.Spec{Property: "C09", Check: "C09",
	Rule: "a valid or arbitrary polygon inside the grid with 1-3 vertices moved to a generated position relative to the extent: outside on one of the sides left/bottom/right/top or a corner at a distance from {1e-10 units, 2..10 fixed point units, a fraction of a pixel, exactly on the exclusive right/top border, exactly 1 pixel, up to 10 pixels, several grid widths (half of these, where the numbers allow: exactly k*2^32 pixels, k = 1..3, right of or above another vertex that is first moved to a pixel with the bits of k at position 16 of its address - the pair collides if the oversized address is folded into a Z-order key before it is checked), or an ordinate beyond the fixed point range (1e9 .. 1e30, infinite)}, " +
		"or (companion class) inside within one pixel of a border incl. exactly on the inclusive left/bottom border; grids: synthetic with zero and non-zero (also negative) origin, NetherlandsRDNewQuad, WebMercatorQuad, and a set derived from NetherlandsRDNewQuad by halving/quartering the cell sizes on Go struct copies (shares pointers with the built-in set, used in the same process); both values of IgnoreOutsideGrid. " +
		"Oracle: 'outside' is decided by the harness on the fixed point reading against [min, min+span) (exact). Outside => with ignore off the call panics with an error that errors.As a pointindex.OutsideGridError, with ignore on it returns an empty map; never geometry. " +
		"All inside and the grid round => no OutsideGridError. PointIndex.InsertPoint is probed with every vertex: error <=> outside on round grids, error <= outside otherwise. " +
		"Non-trivial: an outside vertex closer than one pixel to the extent or exactly on the exclusive border, or an alias pair. Distinct by case content.",
	Assumptions: []string{"the extent is the harness' reading of tms20.MatrixBoundingBox(0)"}}

type C09Case struct {
	SnapCase
	Moved []string `json:"moved"`
}

// c09Grid: as AnyGrid, plus a set derived from NetherlandsRDNewQuad in Go (cell sizes halved or quartered: the corner at the point of
// origin) that shares pointers with the built-in set and is used in the same process, at the same levels.
func c09Grid(t *rapid.T) gen.GridSpec {
	if rapid.IntRange(0, 7).Draw(t, "derived") == 5 {
		return gen.GridSpec{Kind: "derived", Name: "NetherlandsRDNewQuad", Factor: rapid.SampledFrom([]float64{0.5, 0.25}).Draw(t, "factor")}
	}
	return gen.AnyGrid(t)
}

func genC09(t *rapid.T) C09Case {
	var c C09Case
	if rapid.Bool().Draw(t, "validPolygon") {
		c.SnapCase = drawValidCase(t, validOpts{maxHoles: 1}, c09Grid, 2)
	} else {
		c.SnapCase = drawArbCase(t, c09Grid, 2, 12)
	}
	c.Flags.Ignore = rapid.Bool().Draw(t, "ignoreOutside")
	g := c.Grid.MustBuild()
	maxID := 0
	for _, id := range c.IDs {
		maxID = max(maxID, id)
	}
	deepest := g.LevelOf(maxID)
	px := g.Res(deepest)
	var slots [][2]int
	for i, r := range c.Poly {
		for j := range r {
			slots = append(slots, [2]int{i, j})
		}
	}
	if len(slots) == 0 {
		return c
	}
	nm := rapid.IntRange(1, 3).Draw(t, "moved")
	for k := 0; k < nm; k++ {
		sl := slots[rapid.IntRange(0, len(slots)-1).Draw(t, "slot")]
		inside := rapid.IntRange(0, 3).Draw(t, "companion") == 0
		side := rapid.SampledFrom([]string{"left", "bottom", "right", "top", "bottomleft", "bottomright", "topleft", "topright"}).Draw(t, "side")
		var d int64
		dcls := rapid.SampledFrom([]string{"1unit", "fewunits", "subpixel", "border", "1pixel", "pixels", "1unit", "fewunits", "subpixel", "border", "1pixel", "pixels", "far", "extreme"}).Draw(t, "dist")
		switch dcls {
		case "1unit":
			d = 1
		case "fewunits":
			d = rapid.Int64Range(2, 10).Draw(t, "d")
		case "subpixel":
			d = rapid.Int64Range(1, max(px-1, 1)).Draw(t, "d")
		case "border":
			d = 0
		case "1pixel":
			d = px
		case "pixels":
			d = rapid.Int64Range(px, 10*px).Draw(t, "d")
		case "far": // several grid widths away (inside the other grid that shares this one's origin, for derived grids)
			d = rapid.Int64Range(g.Span/8, 3*g.Span).Draw(t, "d")
		}
		cur := P{X: kernel.ToFixed(c.Poly[sl[0]][sl[1]][0]), Y: kernel.ToFixed(c.Poly[sl[0]][sl[1]][1])}
		hiX, hiY := g.MinX+g.Span, g.MinY+g.SpanY
		np := cur
		// outside: left/bottom at min-d (d>=1), right/top at max+d (d>=0: the border itself is exclusive)
		// inside (companion): left/bottom at min+d, right/top at max-1-d
		lo := func(minv int64) int64 {
			if inside {
				return minv + d
			}
			return minv - max(d, 1)
		}
		hi := func(maxv int64) int64 {
			if inside {
				return maxv - 1 - d
			}
			return maxv + d
		}
		switch side {
		case "left":
			np.X = lo(g.MinX)
		case "bottom":
			np.Y = lo(g.MinY)
		case "right":
			np.X = hi(hiX)
		case "top":
			np.Y = hi(hiY)
		case "bottomleft":
			np.X, np.Y = lo(g.MinX), lo(g.MinY)
		case "bottomright":
			np.X, np.Y = hi(hiX), lo(g.MinY)
		case "topleft":
			np.X, np.Y = lo(g.MinX), hi(hiY)
		case "topright":
			np.X, np.Y = hi(hiX), hi(hiY)
		}
		x, _ := gen.ExactFloat(np.X)
		y, _ := gen.ExactFloat(np.Y)
		if dcls == "extreme" && !inside { // beyond what 1e-10 fixed point can hold, and infinite
			ex := rapid.SampledFrom([]float64{1e9, 9.3e8, 1e12, 1e30, math.Inf(1)}).Draw(t, "extreme")
			switch side {
			case "left", "bottomleft", "topleft":
				x = -ex
			case "right", "bottomright", "topright":
				x = ex
			case "bottom":
				y = -ex
			default:
				y = ex
			}
		}
		if dcls == "far" && !inside && len(slots) >= 2 && rapid.Bool().Draw(t, "alias") {
			// exactly k * 2^32 pixels right of / above another vertex of the polygon whose pixel address has the bits of k at
			// position 16: the two collide if the oversized address is folded or truncated into a Z-order key before it is checked
			k := int64(rapid.IntRange(1, 3).Draw(t, "aliasK"))
			if deepest >= 18 && px < (int64(1)<<28)/k {
				ti := rapid.IntRange(0, len(slots)-1).Draw(t, "twin")
				if slots[ti] == sl {
					ti = (ti + 1) % len(slots)
				}
				tw := slots[ti]
				tp := P{X: kernel.ToFixed(c.Poly[tw[0]][tw[1]][0]), Y: kernel.ToFixed(c.Poly[tw[0]][tw[1]][1])}
				if g.InsideExtent(tp) {
					pix := g.Pixel(tp, deepest, deepest)
					ax := rapid.IntRange(0, 2).Draw(t, "aliasAxis") // x, y, both
					if ax != 1 {
						pix.X |= k << 16
					}
					if ax != 0 {
						pix.Y |= k << 16
					}
					ctr := g.Centre(pix, deepest, deepest)
					tx, _ := gen.ExactFloat(ctr.X)
					ty, _ := gen.ExactFloat(ctr.Y)
					c.Poly[tw[0]][tw[1]] = [2]float64{tx, ty}
					far := ctr
					if ax != 1 {
						far.X += (k << 32) * px
					}
					if ax != 0 {
						far.Y += (k << 32) * px
					}
					x, _ = gen.ExactFloat(far.X)
					y, _ = gen.ExactFloat(far.Y)
					dcls = "alias"
				}
			}
		}
		c.Poly[sl[0]][sl[1]] = [2]float64{x, y}
		c.Moved = append(c.Moved, fmt.Sprintf("%s/%s/inside=%v", side, dcls, inside))
	}
	return c
}

func oracleC09(c C09Case) (o report.Outcome) {
	g := c.Grid.MustBuild()
	a := analyse(c.SnapCase)
	o.Label("grid=%s", gridClass(c.Grid))
	o.Label("ignore=%v", c.Flags.Ignore)
	px := g.Res(a.deepest)
	round := g.IsRound(a.deepest)
	anyOutside, near := false, false
	var ix *pointindex.PointIndex
	func() {
		defer func() { _ = recover() }()
		ix, _ = pointindex.FromTileMatrixSet(g.TMS, a.maxID)
	}()
	for ri, r := range a.fixed {
		for vi, p := range r {
			out := !g.InsideExtent(p)
			if out {
				anyOutside = true
				dx := max(g.MinX-p.X, p.X-(g.MinX+g.Span)+0, 0)
				dy := max(g.MinY-p.Y, p.Y-(g.MinY+g.SpanY)+0, 0)
				if max(dx, dy) < px {
					near = true
				}
			}
			if ix != nil {
				err := func() (err error) {
					defer func() {
						if e := recover(); e != nil {
							err = fmt.Errorf("InsertPoint panicked: %v", e)
						}
					}()
					return ix.InsertPoint(geom.Point(c.Poly[ri][vi]))
				}()
				if out && err == nil {
					o.Failf([]string{"insertpoint-accepts-outside"}, "PointIndex.InsertPoint accepted %v (fixed %v), which lies outside the extent [%d,%d)x[%d,%d)", c.Poly[ri][vi], p, g.MinX, g.MinX+g.Span, g.MinY, g.MinY+g.SpanY)
					return o
				}
				if !out && round && err != nil {
					o.Failf([]string{"insertpoint-rejects-inside"}, "PointIndex.InsertPoint rejected %v (fixed %v), which lies inside the extent [%d,%d)x[%d,%d): %v", c.Poly[ri][vi], p, g.MinX, g.MinX+g.Span, g.MinY, g.MinY+g.SpanY, err)
					return o
				}
			}
		}
	}
	if anyOutside {
		o.Label("outside")
	} else {
		o.Label("all inside")
	}
	if near {
		o.NonTrivial = true
		o.Label("outside within one pixel / on the exclusive border")
	}
	for _, m := range c.Moved {
		if strings.Contains(m, "/alias/") {
			o.NonTrivial = true
			o.Label("outside vertex k*2^32 pixels from another vertex (key alias)")
		}
	}
	res := snapSafe(c.SnapCase)
	isOutsideErr := false
	if res.Panic != nil {
		if err, ok := res.Panic.(error); ok {
			isOutsideErr = errors.As(err, new(pointindex.OutsideGridError))
		}
	}
	switch {
	case anyOutside && !c.Flags.Ignore:
		if res.Panic == nil {
			o.Failf([]string{"outside-snapped"}, "a vertex lies outside the extent, IgnoreOutsideGrid is off, but SnapPolygon returned %v instead of panicking (moved: %v)", res.Out, c.Moved)
		} else if !isOutsideErr {
			o.Failf([]string{"outside-wrong-panic"}, "a vertex lies outside the extent; SnapPolygon panicked with %T %v, which is not an error wrapping pointindex.OutsideGridError", res.Panic, res.Panic)
		}
	case anyOutside && c.Flags.Ignore:
		if res.Panic != nil {
			o.Failf([]string{"outside-ignore-panic"}, "a vertex lies outside the extent, IgnoreOutsideGrid is on, but SnapPolygon panicked: %s", panicText(res))
		} else if len(res.Out) != 0 {
			o.Failf([]string{"outside-snapped"}, "a vertex lies outside the extent, IgnoreOutsideGrid is on, but SnapPolygon returned geometry: %v (moved: %v)", res.Out, c.Moved)
		}
	case !anyOutside && round:
		if isOutsideErr {
			o.Failf([]string{"inside-rejected"}, "all vertices lie inside the extent of a round grid but SnapPolygon reports %v (moved: %v)", res.Panic, c.Moved)
		}
	}
	return o
}

func TestC09(t *testing.T) { report.Run(t, specC09, genC09, oracleC09) }
