package checks

import (
	"fmt"
	"log"
	"math"
	"os"
	"path/filepath"
	"testing"

	"github.com/go-spatial/geom"
	"github.com/pdok/texel/processing"
	"github.com/pdok/texel/processing/gpkg"
	"pgregory.net/rapid"

	"verifharness/report"
)

type C12Case struct {
	Tables   []TableSpec `json:"tables"`
	PageSize int         `json:"pagesize"`
}

var specC12 = report.Spec{Property: "C12", Check: "C12",
	Rule: "source GeoPackages written by the harness (go-spatial gpkg + SQL): 1-3 feature tables, integer primary key plus 0-4 attribute columns (INTEGER, REAL, TEXT, nullable or NOT NULL), geometry column at a random position, geometry type from all eight names (GEOMETRY, POINT, LINESTRING, POLYGON, MULTIPOINT, MULTILINESTRING, MULTIPOLYGON, GEOMETRYCOLLECTION), SRS in {4326, 3857, a custom 28992 definition}; " +
		"page size p in 1..40 (thorough 120), 1 case in 40 a page size of several hundred up to 1001 with counts around p and around multiples of 999/#columns, 1 in 40 a huge page size (2^20 .. MaxInt64), 1 in 60 (thorough 40) a table whose full page carries more than 32 766 values (33-40 columns x page size ~1000, or 6 columns x page size 5462/8192; SQLite's bound parameter limit) with n = p, p+1 or p+7; feature count n with the classes n = 0, k*p, k*p+1, k*p-1 forced (n <= 3p+1); columns INTEGER, REAL, TEXT and DATETIME (instants with sub-millisecond digits, compared as instants), empty geometries included (first in a page, alone in the last page). Subject: SourceGeopackage.GetTableInfo -> TargetGeopackage.Init/CreateTables/WriteFeatures fed from a channel by the harness, table after table like main.go; and a second route in which the same features are stored in the source and copied by SourceGeopackage.ReadFeatures -> WriteFeatures. " +
		"Oracle (read back with database/sql): rows in rowid order equal the fed features (key, attributes by value, geometry by decoded deep equality); the R-tree table holds exactly the keys of the rows with a non-empty geometry; gpkg_contents min/max = bounding box of all non-empty fed geometries (NULL when none), exact; " +
		"gpkg_geometry_columns row, PRAGMA table_info and the spatial reference system row equal the source's. Non-trivial: some table has n > p and n mod p in {0, 1, p-1}. Distinct by case content.",
	Assumptions: []string{"the verif-tagged stub driver's ST_IsEmpty/ST_MinX.. stand in for SpatiaLite's (same semantics on the generated geometries)", "geometry blobs are non-NULL, page size >= 1, columns have no default values (the reader's documented input domain)"}}

var allGTypes = []string{"POINT", "LINESTRING", "POLYGON", "MULTIPOINT", "MULTILINESTRING", "MULTIPOLYGON", "GEOMETRY", "GEOMETRYCOLLECTION"}

func drawCount(t *rapid.T, p int) int {
	k := rapid.IntRange(0, 3).Draw(t, "k")
	switch rapid.IntRange(0, 5).Draw(t, "nClass") {
	case 0:
		return 0
	case 1:
		return k * p
	case 2:
		return k*p + 1
	case 3:
		return max(k*p-1, 0)
	default:
		return rapid.IntRange(0, 3*p+1).Draw(t, "n")
	}
}

func genC12(t *rapid.T) C12Case {
	c := C12Case{PageSize: rapid.IntRange(1, report.Scale(40, 120)).Draw(t, "pagesize")}
	if rapid.Bool().Draw(t, "smallPage") {
		c.PageSize = rapid.IntRange(1, 5).Draw(t, "pagesizeSmall")
	}
	switch rapid.IntRange(0, 39).Draw(t, "pageClass") {
	case 17: // hundreds of rows per page
		c.PageSize = rapid.SampledFrom([]int{166, 199, 200, 249, 250, 333, 334, 499, 500, 999, 1000, 1001}).Draw(t, "pagesizeLarge")
	case 23: // any positive page size: huge ones mean one transaction per table
		c.PageSize = rapid.SampledFrom([]int{1 << 20, math.MaxInt32, 1 << 50, math.MaxInt64}).Draw(t, "pagesizeHuge")
	}
	wide := false
	nt := rapid.IntRange(1, 3).Draw(t, "tables")
	if rapid.IntRange(0, report.Scale(60, 40)).Draw(t, "wide") == 31 {
		// a full page of a wide table (or a long page of a narrow one) carries more than 32 766 values, SQLite's limit of bound parameters per statement
		wide, nt = true, 1
		c.PageSize = rapid.SampledFrom([]int{1000, 1000, 999, 1200, 5462, 8192}).Draw(t, "pagesizeWide")
	}
	for i := 0; i < nt; i++ {
		ts := drawTableSkeleton(t, i, allGTypes)
		n := drawCount(t, min(c.PageSize, 400))
		if wide {
			if c.PageSize <= 1200 {
				for k := len(ts.Cols); k < 32766/c.PageSize+rapid.IntRange(1, 8).Draw(t, "extraCols"); k++ {
					ts.Cols = append(ts.Cols, ColSpec{Name: fmt.Sprintf("w%d", k), Type: rapid.SampledFrom([]string{"INTEGER", "REAL", "TEXT"}).Draw(t, "wtype")})
				}
			} else if len(ts.Cols) < 4 {
				for k := len(ts.Cols); k < 4; k++ {
					ts.Cols = append(ts.Cols, ColSpec{Name: fmt.Sprintf("w%d", k), Type: "INTEGER"})
				}
			}
			n = c.PageSize + rapid.SampledFrom([]int{0, 1, 7}).Draw(t, "nWide")
		}
		if !wide && c.PageSize >= 100 && c.PageSize <= 2000 && rapid.Bool().Draw(t, "aroundPage") {
			// around the page size, and around multiples of 999 / #columns (statement parameter limits)
			cols := len(ts.Cols) + 2
			n = rapid.SampledFrom([]int{c.PageSize - 1, c.PageSize, c.PageSize + 1, 999 / cols, 999/cols + 1, 2 * (999 / cols), 3 * (999 / cols), 999, 1000}).Draw(t, "nLarge")
		}
		pk := int64(0)
		for r := 0; r < n; r++ {
			pk += int64(rapid.IntRange(1, 3).Draw(t, "pkStep"))
			ts.Rows = append(ts.Rows, RowSpec{PK: pk, Vals: drawVals(t, ts.Cols), Geom: drawGeom(t, ts.GType, true)})
		}
		c.Tables = append(c.Tables, ts)
	}
	return c
}

type fedFeature struct {
	cols []interface{}
	g    geom.Geometry
}

func (f fedFeature) Columns() []interface{}  { return f.cols }
func (f fedFeature) Geometry() geom.Geometry { return f.g }

func oracleC12(c C12Case) (o report.Outcome) {
	captureCurrent(specC12, c)
	defer clearCurrent(specC12)
	dir := scratchDir("c12")
	defer os.RemoveAll(dir)
	src, tgt := filepath.Join(dir, "src.gpkg"), filepath.Join(dir, "tgt.gpkg")
	// the source carries the schema only: C12 hands the features to the target itself
	schema := make([]TableSpec, len(c.Tables))
	for i, t := range c.Tables {
		schema[i] = t
		schema[i].Rows = nil
	}
	if err := writeSource(src, schema); err != nil {
		panic(fmt.Errorf("harness: cannot write the source GeoPackage: %w", err))
	}
	o.Label("pagesize<=5: %v", c.PageSize <= 5)
	var pan any
	func() {
		defer func() { pan = recover() }()
		s := gpkg.SourceGeopackage{}
		s.Init(src)
		tables := s.GetTableInfo()
		tg := gpkg.TargetGeopackage{}
		tg.Init(tgt, c.PageSize)
		if err := tg.CreateTables(tables); err != nil {
			panic(err)
		}
		for _, table := range tables {
			var spec *TableSpec
			for i := range c.Tables {
				if c.Tables[i].Name == table.Name {
					spec = &c.Tables[i]
				}
			}
			if spec == nil {
				panic("GetTableInfo returned an unknown table " + table.Name)
			}
			tg.Table = table
			ch := make(chan processing.Feature)
			done := make(chan struct{})
			go func() { defer close(done); tg.WriteFeatures(ch) }()
			for _, r := range spec.Rows {
				cols := []interface{}{r.PK}
				for i, col := range spec.Cols {
					cols = append(cols, colValue(col, r.Vals[i]))
				}
				ch <- fedFeature{cols: cols, g: r.Geom.Build()}
			}
			close(ch)
			<-done
		}
		tg.Close()
		s.Close()
	}()
	if pan != nil {
		o.Failf([]string{"panic"}, "writing the target panicked: %v", pan)
		return o
	}
	// second route: the same features stored in a source GeoPackage and copied by the tool's own reader into a second target
	src2, tgt2 := filepath.Join(dir, "src-with-rows.gpkg"), filepath.Join(dir, "tgt-copy.gpkg")
	if err := writeSource(src2, c.Tables); err != nil {
		panic(fmt.Errorf("harness: cannot write the source GeoPackage: %w", err))
	}
	func() {
		defer func() { pan = recover() }()
		s := gpkg.SourceGeopackage{}
		s.Init(src2)
		tables := s.GetTableInfo()
		tg := gpkg.TargetGeopackage{}
		tg.Init(tgt2, c.PageSize)
		if err := tg.CreateTables(tables); err != nil {
			panic(err)
		}
		for _, table := range tables {
			s.Table, tg.Table = table, table
			ch := make(chan processing.Feature)
			go s.ReadFeatures(ch)
			tg.WriteFeatures(ch)
		}
		tg.Close()
		s.Close()
	}()
	if pan != nil {
		o.Failf([]string{"panic"}, "copying the source through ReadFeatures/WriteFeatures panicked: %v", pan)
		return o
	}
	sdb, err := openDB(src)
	if err != nil {
		panic(err)
	}
	defer sdb.Close()
	cdb, err := openDB(tgt2)
	if err != nil {
		panic(err)
	}
	defer cdb.Close()
	tdb, err := openDB(tgt)
	if err != nil {
		panic(err)
	}
	defer tdb.Close()
	names, err := featureTables(tdb)
	if err != nil || len(names) != len(c.Tables) {
		o.Failf([]string{"tables"}, "the target has feature tables %v (err %v), the source has %d", names, err, len(c.Tables))
		return o
	}
	for _, t := range c.Tables {
		n, p := len(t.Rows), c.PageSize
		if n > p && (n%p == 0 || n%p == 1 || n%p == p-1) {
			o.NonTrivial = true
		}
		switch {
		case n == 0:
			o.Label("n=0")
		case n%p == 0:
			o.Label("n=k*p")
		case n%p == 1:
			o.Label("n=k*p+1")
		default:
			o.Label("n other")
		}
		st, err := readBack(sdb, schemaOf(t))
		if err != nil {
			panic(fmt.Errorf("harness: reading the source back: %w", err))
		}
		rt, err := readBack(tdb, t)
		if err != nil {
			o.Failf([]string{"readback"}, "table %s cannot be read back from the target: %v", t.Name, err)
			return o
		}
		var want []expectedRow
		for _, r := range t.Rows {
			w := expectedRow{PK: r.PK, Geom: codecRoundTrip(r.Geom.Build())}
			for i, col := range t.Cols {
				w.Vals = append(w.Vals, colValue(col, r.Vals[i]))
			}
			want = append(want, w)
		}
		if why := compareTable(rt, t, want, &st); why != "" {
			o.Failf([]string{"table"}, "page size %d, %d features: %s", c.PageSize, len(t.Rows), why)
			return o
		}
		// on the copy route every geometry passes the codec twice (source file -> tool -> target file -> read back)
		for i := range want {
			want[i].Geom = codecRoundTrip(want[i].Geom)
		}
		ct, err := readBack(cdb, t)
		if err != nil {
			o.Failf([]string{"readback"}, "table %s cannot be read back from the copied target: %v", t.Name, err)
			return o
		}
		if why := compareTable(ct, t, want, &st); why != "" {
			o.Failf([]string{"table", "copy"}, "source copied by ReadFeatures -> WriteFeatures, page size %d, %d features: %s", c.PageSize, len(t.Rows), why)
			return o
		}
	}
	return o
}

func schemaOf(t TableSpec) TableSpec { t.Rows = nil; return t }

func TestC12(t *testing.T) {
	log.SetOutput(os.Stderr)
	report.Run(t, specC12, genC12, oracleC12)
}
