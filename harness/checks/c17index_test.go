package checks

import (
	"fmt"
	"testing"

	"github.com/go-spatial/geom"
	"github.com/pdok/texel/pointindex"
	"pgregory.net/rapid"

	"verifharness/gen"
	"verifharness/kernel"
	"verifharness/report"
)

// C17Index: the clauses of C17 at the place where the keys are used, the point index (second anchor of the property).
var specC17Index = report.Spec{Property: "C17", Check: "C17Index",
	Rule: "histories of 2-7 insertions into one PointIndex (InsertCoord, or InsertPolygon with the pixel centres as vertices) on WebMercatorQuad ids 5..24 and NetherlandsRDNewQuad ids 5..16 (quadtree levels 17..36): a base pixel address with wide bit patterns, " +
		"followed by addresses built to collide with it if keys were folded or truncated (the base plus k*2^32 or k*2^16 in x, y or both, with the bits of k set in the base: the value morton.ToZ returns for an oversized operand ORs bits 32..47 onto bits 16..31; the base with single high bits flipped; neighbours), and random ones. " +
		"Model: an address outside [0, 2^level)^2 must be refused with an OutsideGridError (no panic); an address inside the grid that does not fit 32 bits (levels 33..36) must be reported - an error or the 'cannot make Z' panic - and never accepted silently, whatever was inserted before; " +
		"every other address is accepted, and afterwards every accepted pixel is found again: a zero length line at its centre snaps to exactly that centre on the deepest level, and a pixel that was never inserted is not found, nor is anything found at the positions k*2^32 pixels beyond an accepted pixel that lie outside the pixel grid (in or out of the extent). One base address in three is a corner of the address space (0 or 2^level-1 on either axis). " +
		"Non-trivial: the history contains an address >= 2^32 or two accepted addresses that agree in their low 16 bits on both axes. Distinct by case content.",
	Assumptions: []string{"pixel centres are computed by the harness' grid model (extent from tms20.MatrixBoundingBox)"}}

type C17IndexCase struct {
	Grid    gen.GridSpec `json:"grid"`
	ID      int          `json:"id"`
	Polygon bool         `json:"polygon"` // insert through InsertPolygon (vertices at the pixel centres) instead of InsertCoord
	Addrs   [][2]int64   `json:"addrs"`
	Probe   [2]int64     `json:"probe"` // a pixel that is looked up without having been inserted (if it was not)
}

func genC17Index(t *rapid.T) C17IndexCase {
	c := C17IndexCase{}
	if rapid.IntRange(0, 2).Draw(t, "rd") == 0 {
		c.Grid, c.ID = gen.RD, rapid.IntRange(5, 16).Draw(t, "id")
	} else {
		c.Grid, c.ID = gen.WebMercator, rapid.IntRange(5, 24).Draw(t, "id")
	}
	g := c.Grid.MustBuild()
	level := g.LevelOf(c.ID)
	size := int64(1) << level
	c.Polygon = rapid.IntRange(0, 2).Draw(t, "polygon") == 0 && level <= 32 // (the oracle reads every centre back and sets the case aside when a float cannot hold it)
	wide := func(label string) int64 {
		v := rapid.Int64Range(0, size-1).Draw(t, label)
		if rapid.Bool().Draw(t, label+"High") { // set some high bits: rapid's ranges favour small values
			v |= (size >> 1) >> uint(rapid.IntRange(0, 3).Draw(t, label+"Shift"))
			v |= int64(rapid.IntRange(0, 7).Draw(t, label+"Bits16")) << 16
		}
		return v & (size - 1)
	}
	base := [2]int64{wide("x"), wide("y")}
	switch rapid.IntRange(0, 11).Draw(t, "corner") { // the corners of the address space: all ones is a key like any other
	case 0:
		base = [2]int64{size - 1, size - 1}
	case 1:
		base = [2]int64{0, size - 1}
	case 2:
		base = [2]int64{size - 1, 0}
	case 3:
		base = [2]int64{0, 0}
	case 4, 5: // the pixels whose keys the first positions behind the last pixel would fold to
		m := int64(rapid.IntRange(1, 3).Draw(t, "foldM"))
		v := (m<<16 + int64(rapid.IntRange(0, 7).Draw(t, "foldK"))) & (size - 1)
		switch rapid.IntRange(0, 2).Draw(t, "foldAxis") {
		case 0:
			base[0] = v
		case 1:
			base[1] = v
		default:
			base = [2]int64{v, v}
		}
	}
	c.Addrs = append(c.Addrs, base)
	n := rapid.IntRange(1, 6).Draw(t, "more")
	for i := 0; i < n; i++ {
		a := base
		if i > 0 && rapid.Bool().Draw(t, "chain") { // build on the previous address instead
			a = c.Addrs[len(c.Addrs)-1]
		}
		switch rapid.SampledFrom([]string{"fold32", "fold32", "fold16", "flip", "neighbour", "random", "negative", "beyond"}).Draw(t, "kind") {
		case "fold32": // collides with the base if bits 32.. are OR-ed onto bits 16.. (ToZ's value for an oversized operand) or dropped
			for ax := 0; ax < 2; ax++ {
				if rapid.Bool().Draw(t, "axis") || ax == 1 && a == base {
					k := (a[ax] >> 16) & 0xffff
					if k == 0 || rapid.IntRange(0, 3).Draw(t, "anyK") == 0 {
						k = int64(rapid.IntRange(1, 5).Draw(t, "k"))
					} else if rapid.Bool().Draw(t, "subK") { // a sub-pattern of the base's bits
						k &= int64(rapid.IntRange(1, 0xffff).Draw(t, "mask"))
						if k == 0 {
							k = (a[ax] >> 16) & 0xffff
						}
					}
					a[ax] += k << 32
				}
			}
		case "fold16":
			ax := rapid.IntRange(0, 1).Draw(t, "axis")
			a[ax] += int64(rapid.IntRange(1, 9).Draw(t, "k")) << uint(rapid.SampledFrom([]int{16, 24, 31}).Draw(t, "shift"))
		case "flip":
			ax := rapid.IntRange(0, 1).Draw(t, "axis")
			a[ax] ^= int64(1) << uint(rapid.IntRange(0, 36).Draw(t, "bit"))
		case "neighbour":
			a[0] += int64(rapid.IntRange(-1, 1).Draw(t, "dx"))
			a[1] += int64(rapid.IntRange(-1, 1).Draw(t, "dy"))
		case "random":
			a = [2]int64{wide("rx"), wide("ry")}
		case "negative":
			a[rapid.IntRange(0, 1).Draw(t, "axis")] = -int64(rapid.IntRange(1, 70000).Draw(t, "neg"))
		case "beyond":
			a[rapid.IntRange(0, 1).Draw(t, "axis")] = size + int64(rapid.IntRange(0, 70000).Draw(t, "over"))
		}
		c.Addrs = append(c.Addrs, a)
	}
	c.Probe = [2]int64{base[0] ^ (int64(1) << uint(rapid.IntRange(0, int(level)-1).Draw(t, "probeBit"))), base[1]}
	return c
}

func oracleC17Index(c C17IndexCase) (o report.Outcome) {
	g := c.Grid.MustBuild()
	level := g.LevelOf(c.ID)
	size := int64(1) << level
	lev := kernel.Leveled{G: g, Level: level, Deepest: level}
	o.Label("level %d", level)
	o.Label("polygon route: %v", c.Polygon)
	ix, err := pointindex.FromTileMatrixSet(g.TMS, c.ID)
	if err != nil {
		o.OutOfScope = true
		o.Label("no index: " + err.Error())
		return o
	}
	centre := func(a [2]int64) geom.Point {
		p := lev.Centre(P{X: a[0], Y: a[1]})
		return geom.Point{kernel.FromFixed(p.X), kernel.FromFixed(p.Y)}
	}
	accepted := map[[2]int64]bool{}
	var order [][2]int64
	for i, a := range c.Addrs {
		outside := a[0] < 0 || a[1] < 0 || a[0] >= size || a[1] >= size
		oversized := !outside && (a[0] > 0xffffffff || a[1] > 0xffffffff)
		if oversized {
			o.NonTrivial = true
			o.Label("inside address >= 2^32")
		} else if a[0] > 0xffffffff || a[1] > 0xffffffff {
			o.NonTrivial = true
			o.Label("outside address >= 2^32")
		}
		var ierr error
		var pan any
		func() {
			defer func() { pan = recover() }()
			if c.Polygon {
				// the address that is being tested together with one that is already in: the first vertex is accepted (again)
				ring := [][2]float64{}
				if len(order) > 0 {
					ring = append(ring, centre(order[len(order)-1]))
				}
				ring = append(ring, centre(a))
				if got := lev.OutPix(ring[len(ring)-1]); got != (P{X: a[0], Y: a[1]}) {
					panic(fmt.Sprintf("harness: centre of %v reads back as pixel %v", a, got))
				}
				ierr = ix.InsertPolygon(geom.Polygon{ring})
			} else {
				ierr = ix.InsertCoord(int(a[0]), int(a[1]))
			}
		}()
		if s, ok := pan.(string); ok && len(s) > 8 && s[:8] == "harness:" {
			o.OutOfScope = true
			o.Label("pixel centre not representable")
			return o
		}
		switch {
		case outside:
			var og pointindex.OutsideGridError
			if pan != nil || ierr == nil || !asOutside(ierr, &og) {
				o.Failf([]string{"outside-accepted"}, "insertion %d: address %v lies outside [0, 2^%d)^2 but was not refused with an OutsideGridError (error %v, panic %v); inserted before: %v", i, a, level, ierr, pan, order)
				return o
			}
		case oversized:
			if pan == nil && ierr == nil {
				o.Failf([]string{"silently-aliased"}, "insertion %d: address %v does not fit 32 bits and was accepted without any report (no error, no panic); inserted before: %v", i, a, order)
				return o
			}
		default:
			if pan != nil || ierr != nil {
				o.Failf([]string{"inside-refused"}, "insertion %d: address %v lies inside the grid and fits 32 bits but was refused (error %v, panic %v)", i, a, ierr, pan)
				return o
			}
			for b := range accepted {
				if b != a && b[0]&0xffff == a[0]&0xffff && b[1]&0xffff == a[1]&0xffff {
					o.NonTrivial = true
					o.Label("accepted addresses agree in their low 16 bits")
				}
			}
			if !accepted[a] {
				accepted[a] = true
				order = append(order, a)
			}
		}
	}
	if level > 32 {
		return o // (no lookups: the walk down to such a level panics on its own, known finding F10 of C06)
	}
	find := func(a [2]int64) (found [][2]float64, pan any) {
		defer func() { pan = recover() }()
		p := centre(a)
		res := ix.SnapClosestPoints(geom.Line{p, p}, map[pointindex.Level]any{level: struct{}{}}, 0)
		return res[level], nil
	}
	for _, a := range order {
		got, pan := find(a)
		if pan != nil || len(got) != 1 || lev.OutPix(got[0]) != (P{X: a[0], Y: a[1]}) {
			o.Failf([]string{"lost"}, "pixel %v was accepted but is not found again: a zero length line at its centre snaps to %v (panic %v); accepted: %v", a, got, pan, order)
			return o
		}
	}
	if !accepted[c.Probe] && c.Probe[0] >= 0 && c.Probe[0] < size {
		got, pan := find(c.Probe)
		if pan == nil && len(got) != 0 {
			o.Failf([]string{"phantom"}, "pixel %v was never inserted but a zero length line at its centre snaps to %v; accepted: %v", c.Probe, got, order)
			return o
		}
	}
	// positions that are no pixels at all - k*2^32 pixels beyond an accepted one, outside the pixel grid, possibly still inside the
	// extent (the strip behind the last pixel of a grid that does not divide evenly) - hold nothing, whatever key they would fold to
	for _, a := range order {
		cands := [][2]int64{{a[0] + 1<<32, a[1]}, {a[0], a[1] + 1<<32}, {a[0] + 1<<32, a[1] + 1<<32}}
		for m := int64(1); m <= 3; m++ { // positions whose key, if bits 32.. were OR-ed onto bits 16.., would be the key of a
			unfold := func(v int64) int64 { return v&^(m<<16) + m<<32 }
			if (a[0]>>16)&m == m {
				cands = append(cands, [2]int64{unfold(a[0]), a[1]})
			}
			if (a[1]>>16)&m == m {
				cands = append(cands, [2]int64{a[0], unfold(a[1])})
			}
			if (a[0]>>16)&m == m && (a[1]>>16)&m == m {
				cands = append(cands, [2]int64{unfold(a[0]), unfold(a[1])})
			}
		}
		for _, b := range cands {
			if b[0] < size && b[1] < size {
				continue
			}
			ce := lev.Centre(P{X: b[0], Y: b[1]})
			if ce.X < a0(g.MinX) || ce.Y < a0(g.MinY) { // overflow of the fixed point arithmetic
				continue
			}
			p := centre(b)
			if lev.OutPix(p) != (P{X: b[0], Y: b[1]}) {
				continue
			}
			o.Label("lookup beyond the pixel grid at an alias position")
			got, pan := find(b)
			if pan == nil && len(got) != 0 {
				o.Failf([]string{"phantom"}, "position %v lies beyond the pixel grid (2^%d pixels) and holds nothing, but a zero length line there snaps to %v; accepted: %v", b, level, got, order)
				return o
			}
		}
	}
	return o
}

func a0(v int64) int64 { return v }

func asOutside(err error, target *pointindex.OutsideGridError) bool {
	for err != nil {
		if e, ok := err.(pointindex.OutsideGridError); ok {
			*target = e
			return true
		}
		u, ok := err.(interface{ Unwrap() error })
		if !ok {
			return false
		}
		err = u.Unwrap()
	}
	return false
}

func TestC17Index(t *testing.T) { report.Run(t, specC17Index, genC17Index, oracleC17Index) }
