package checks

import (
	"fmt"
	"regexp"
	"sort"
	"strconv"
	"strings"
	"testing"

	"github.com/pdok/texel/pointindex"
	"github.com/pdok/texel/tms20"

	"verifharness/gen"
	"verifharness/report"
)

// C03Cli: "the deviation the tool reports when it validates the tile matrix set" is what the binary prints; C03 itself uses
// pointindex.DeviationStats for the deepest requested id. This closes the gap between the two.
var specC03Cli = report.Spec{Property: "C03", Check: "C03Cli", Exhaustive: true,
	Rule: "exhaustive: every built-in set that passes validation x id lists {[deepest], [deepest, shallowest], [shallowest, deepest], [deepest, middle, shallowest], [middle], [second deepest, deepest, shallowest], [deepest, deepest-1]} through the REAL BINARY (missing source file: it stops right after validation). " +
		"Oracle: the binary prints its deviation warning iff pointindex.DeviationStats for the LARGEST requested id (the grid SnapPolygon builds, in whatever order the ids are listed) reports >= 1 pixel, and the units it prints are that deviation (to the 6 decimals printed) and the matrix it names is that id. " +
		"Non-trivial: the ids are not listed in ascending order, or the deviation exceeds a pixel.",
	Assumptions: []string{"the binary is built by the driver from /repo's working tree with -tags verif"}}

type C03CliCase struct {
	Set string `json:"set"`
	IDs []int  `json:"ids"`
}

var warnRe = regexp.MustCompile(`deviation is larger than 1 tile pixel \(([-0-9.eE+]+) units\) on the deepest matrix \((-?\d+)\)`)

func oracleC03Cli(c C03CliCase) (o report.Outcome) {
	o.Key = fmt.Sprint(c.Set, c.IDs)
	tms, err := tms20.LoadEmbeddedTileMatrixSet(c.Set)
	if err != nil {
		panic(err)
	}
	maxID := c.IDs[0]
	for _, id := range c.IDs {
		maxID = max(maxID, id)
	}
	_, devUnits, devPixels, err := pointindex.DeviationStats(tms, maxID)
	if err != nil {
		o.OutOfScope = true
		o.Label("no deviation statistics: " + err.Error())
		return o
	}
	verdict, out := cliOutcomeIDs(c.Set, c.IDs)
	if verdict == "no-binary" {
		panic("harness: VERIF_TEXEL_BIN not set; run through ./check")
	}
	if verdict != "accepted" {
		o.Failf([]string{"cli"}, "texel -tms %s -z %v does not pass validation (%s) although the set does with other ids: %.400s", c.Set, c.IDs, verdict, out)
		return o
	}
	if !sort.IntsAreSorted(c.IDs) || devPixels >= 1 {
		o.NonTrivial = true
	}
	m := warnRe.FindStringSubmatch(out)
	if (m != nil) != (devPixels >= 1) {
		o.Failf([]string{"deviation-report"}, "texel -tms %s -z %v: the grid is built for tile matrix %d, whose deviation is %v pixels (%v units), warning printed: %v; output: %.500s", c.Set, c.IDs, maxID, devPixels, devUnits, m != nil, out)
		return o
	}
	if m != nil {
		o.Label("warning printed")
		units, _ := strconv.ParseFloat(m[1], 64)
		id, _ := strconv.Atoi(m[2])
		if id != maxID || strings.TrimSpace(m[1]) != fmt.Sprintf("%f", devUnits) {
			o.Failf([]string{"deviation-report"}, "texel -tms %s -z %v reports a deviation of %v units on matrix %d; the grid is built for matrix %d with a deviation of %f units", c.Set, c.IDs, units, id, maxID, devUnits)
		}
	}
	return o
}

func TestC03Cli(t *testing.T) {
	report.RunEnum(t, specC03Cli, func(yield func(C03CliCase) bool) {
		for _, s := range gen.AllBuiltin {
			tms, err := tms20.LoadEmbeddedTileMatrixSet(s)
			if err != nil || validationAccepts(tms, maxIDOf(tms)) != nil {
				continue
			}
			var all []int
			for id := range tms.TileMatrices {
				all = append(all, id)
			}
			sort.Ints(all)
			n := len(all)
			lo, mid, hi := all[0], all[n/2], all[n-1]
			for _, ids := range [][]int{{hi}, {hi, lo}, {lo, hi}, {hi, mid, lo}, {mid}, {all[max(n-2, 0)], hi, lo}, {hi, all[max(n-2, 0)]}} {
				if !yield(C03CliCase{Set: s, IDs: ids}) {
					return
				}
			}
		}
	}, oracleC03Cli)
}
