package checks

import (
	"fmt"
	"math"
	"sync"
	"testing"

	"github.com/pdok/texel/pointindex"
	"github.com/pdok/texel/tms20"
	"pgregory.net/rapid"

	"verifharness/gen"
	"verifharness/kernel"
	"verifharness/report"
)

var specC03 = report.Spec{Property: "C03", Check: "C03",
	Rule: "every built-in tile matrix set that passes the tool's validation (decided at run time by calling it) and synthetic grids with non-zero origin x a tile matrix id (all ids whose pixel level is <= 32) x 0-2 co-requested ids x small arbitrary polygons (1-2 rings, 3-8 vertices, a few pixels across) anchored at the origin corner, the far corner, on quadtree splits or anywhere x flags. " +
		"Oracle: ideal pixel size p = span/(matrixWidth_z*tileWidth*16) from the document numbers; first |cellSize_z/16 - p| <= 1e-6*p; then every returned ordinate c satisfies dist(c, nearest(min + (k+1/2)p)) <= dev + 1e-9 + 4 ulp, " +
		"x against the document's x extent and y against its y extent (axis order from orderedAxes), where dev = |deviation in units| reported by pointindex.DeviationStats for the deepest requested id. " +
		"Non-trivial: dev + tolerance < p/4 (otherwise the nearest-centre test cannot fail) and geometry was returned. Distinct by (set, id, deepest id, anchor class, polygon).",
	Assumptions: []string{"the ideal grid is derived from the document numbers alone (pointOfOrigin, cornerOfOrigin, orderedAxes, matrixWidth, tileWidth, cellSize of matrix 0)"}}

var (
	acceptedOnce sync.Once
	acceptedSets []string
)

// validationAccepts mirrors main.validateTileMatrixSet through the public API.
func validationAccepts(tms tms20.TileMatrixSet, deepest int) (err error) {
	defer func() {
		if e := recover(); e != nil {
			err = fmt.Errorf("PANIC: %v", e)
		}
	}()
	if err := pointindex.IsQuadTree(tms); err != nil {
		return err
	}
	_, _, _, err = pointindex.DeviationStats(tms, deepest)
	return err
}

func accepted() []string {
	acceptedOnce.Do(func() {
		for _, name := range gen.AllBuiltin {
			tms, err := tms20.LoadEmbeddedTileMatrixSet(name)
			if err != nil {
				continue
			}
			if validationAccepts(tms, 0) == nil {
				acceptedSets = append(acceptedSets, name)
			}
		}
	})
	return acceptedSets
}

func genC03(t *rapid.T) SnapCase {
	var c SnapCase
	if rapid.IntRange(0, 5).Draw(t, "synthetic") == 0 {
		c.Grid = gen.Synthetic(t)
	} else {
		c.Grid = gen.GridSpec{Kind: "builtin", Name: rapid.SampledFrom(accepted()).Draw(t, "set")}
	}
	g, err := c.Grid.Build()
	if err != nil {
		return c // the oracle reports it: the tool's extent disagrees with the document
	}
	top := min(g.MaxID(), maxAddressableID(g))
	id := rapid.IntRange(0, top).Draw(t, "id")
	c.IDs = []int{id}
	for k := rapid.IntRange(0, 2).Draw(t, "others"); k > 0; k-- {
		o := rapid.IntRange(0, top).Draw(t, "other")
		dup := false
		for _, e := range c.IDs {
			if e == o {
				dup = true
			}
		}
		if !dup {
			c.IDs = append(c.IDs, o)
		}
	}
	if rapid.Bool().Draw(t, "shuffle") && len(c.IDs) > 1 {
		c.IDs[0], c.IDs[len(c.IDs)-1] = c.IDs[len(c.IDs)-1], c.IDs[0]
	}
	c.Flags = gen.DrawFlags(t)
	c.Flags.Ignore = false
	c.Q = 4
	nr := rapid.IntRange(1, 2).Draw(t, "rings")
	var rings [][]P
	for r := 0; r < nr; r++ {
		n := rapid.IntRange(3, 8).Draw(t, "n")
		w := rapid.Int64Range(1, 5).Draw(t, "wpx") * 4
		ring := make([]P, n)
		for i := range ring {
			ring[i] = P{X: rapid.Int64Range(0, w).Draw(t, "x"), Y: rapid.Int64Range(0, w).Draw(t, "y")}
		}
		rings = append(rings, ring)
	}
	maxID := 0
	for _, e := range c.IDs {
		maxID = max(maxID, e)
	}
	lev := kernel.Leveled{G: g, Level: g.LevelOf(id), Deepest: g.LevelOf(maxID)}
	an, cls := gen.Anchor(t, int64(1)<<lev.Level, 7)
	c.Anchor = cls
	pl := gen.Placement{L: lev, Q: 4, Anchor: an}
	if rapid.Bool().Draw(t, "subOffset") {
		s := lev.Span() / 4
		if s > 1 {
			pl.Off = P{X: rapid.Int64Range(0, s-1).Draw(t, "offx"), Y: rapid.Int64Range(0, s-1).Draw(t, "offy")}
		}
	}
	c.Poly, _ = pl.Floats(rings)
	return c
}

func ulp(x float64) float64 {
	x = math.Abs(x)
	return math.Nextafter(x, math.Inf(1)) - x
}

func oracleC03(c SnapCase) (o report.Outcome) {
	if _, err := c.Grid.Build(); err != nil {
		o.NonTrivial = true
		o.Failf([]string{"extent"}, "the grid does not start at the corner of the extent that the document describes: %v", err)
		return o
	}
	a := analyse(c)
	g := a.g
	o.Label("grid=%s", gridClass(c.Grid))
	if !a.inside {
		o.OutOfScope = true
		o.Label("vertex outside the addressable grid")
		return o
	}
	res := snapSafe(c)
	if res.Panic != nil {
		o.OutOfScope = true
		o.Label("snapping panicked (decided by C06/C09)")
		return o
	}
	_, devUnits, _, err := pointindex.DeviationStats(g.TMS, a.maxID)
	if err != nil {
		o.Failf([]string{"deviation"}, "DeviationStats failed for an accepted set: %v", err)
		return o
	}
	dev := math.Abs(devUnits)
	minX, minY, spanX, spanY, err := kernel.DocExtent(&g.TMS, 0)
	if err != nil {
		panic(err)
	}
	for _, id := range sortedIDs(res.Out) {
		tm := g.TMS.TileMatrices[id]
		px := spanX / (float64(tm.MatrixWidth) * float64(tm.TileWidth) * 16)
		py := spanY / (float64(tm.MatrixHeight) * float64(tm.TileHeight) * 16)
		if math.Abs(tm.CellSize/16-px) > 1e-6*px {
			o.Failf([]string{"cellsize"}, "tile matrix %d: cell size/16 = %v but the extent divided into its pixels gives %v", id, tm.CellSize/16, px)
			return o
		}
		tol := dev + 1e-9 + 4*ulp(math.Max(math.Max(math.Abs(minX), math.Abs(minY)), spanX))
		if tol < px/4 {
			o.NonTrivial = true
			o.Label("discriminating (tolerance < p/4)")
		} else {
			o.Label("deviation too large to discriminate")
		}
		o.Key = fmt.Sprint(c.Grid, c.IDs, c.Anchor, c.Poly)
		for _, pg := range res.Out[id] {
			for _, rg := range pg {
				for _, v := range rg {
					for ax, cval := range v {
						m, p := minX, px
						if ax == 1 {
							m, p = minY, py
						}
						k := math.Floor((cval - m) / p)
						centre := m + (k+0.5)*p
						if d := math.Abs(cval - centre); d > tol {
							o.Failf([]string{"not-a-centre"}, "tile matrix %d: returned ordinate %v (axis %d) is %v away from the nearest pixel centre %v of the grid (origin %v, pixel %v); allowed %v (reported deviation %v)", id, cval, ax, d, centre, m, p, tol, dev)
							return o
						}
					}
				}
			}
		}
	}
	if len(res.Out) == 0 {
		o.NonTrivial = false
	}
	return o
}

func TestC03(t *testing.T) { report.Run(t, specC03, genC03, oracleC03) }
