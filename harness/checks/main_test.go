package checks

import (
	"io"
	"log"
	"os"
	"testing"
)

// The tool logs through the standard logger (warnings for skipped polygons, statistics); keep the test output clean.
func TestMain(m *testing.M) {
	log.SetOutput(io.Discard)
	os.Exit(m.Run())
}
