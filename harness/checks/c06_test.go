package checks

import (
	"encoding/json"
	"fmt"
	"math"
	"os"
	"path/filepath"
	"strconv"
	"strings"
	"testing"
	"time"

	"pgregory.net/rapid"

	"verifharness/gen"
	"verifharness/kernel"
	"verifharness/report"
)

var specC06 = report.Spec{Property: "C06", Check: "C06",
	Rule: "arbitrary vertex sequences inside the grid: 1-4 rings of 0-200 vertices (thorough: 0-600) (pool-based repetition, words over 2-6 pixel centres in general position from a walk/back-track/repeat/reverse/zig-zag grammar, uniform, valid) x grids (as C05) x 1-3 ids (1 in 12 cases also ids deeper than quadtree level 32) x all flags. " +
		"Oracle: the call returns (a panic is caught with its value and first texel frame) within the hang limit (10 s; typical < 1 ms; a case over the limit is re-run in a fresh process with a 60 s limit before it counts). " +
		"Non-trivial: the routed ring of some tile matrix contains a step back (v[i] == v[i-2]) or a repeated centre. Distinct by case content.",
	Assumptions: []string{"hang = no return within the limit, confirmed in a fresh process; a slow machine yields 'inconclusive', never a violation"}}

func genC06(t *rapid.T) SnapCase {
	c := drawArbCase(t, gen.AnyGridWide, 3, report.Scale(200, 600))
	c.Flags.Ignore = rapid.Bool().Draw(t, "ignoreOutside")
	if c.Grid.Kind == "builtin" && rapid.IntRange(0, 11).Draw(t, "deepID") == 0 {
		// known finding F10: ids whose pixel level exceeds 32
		g := c.Grid.MustBuild()
		if g.MaxID() > maxAddressableID(g) {
			c.IDs = append(c.IDs, rapid.IntRange(maxAddressableID(g)+1, g.MaxID()).Draw(t, "tooDeep"))
		}
	}
	return c
}

func hangLimit() time.Duration {
	if s := os.Getenv("VERIF_HANG_LIMIT"); s != "" {
		if n, err := strconv.Atoi(s); err == nil {
			return time.Duration(n) * time.Second
		}
	}
	if report.Tier() == "thorough" { // 16 shards (some under the race detector) share the machine: a large case may legitimately take longer
		return 30 * time.Second
	}
	return 10 * time.Second
}

// hangExit records the case and leaves the process: the stuck goroutine cannot be stopped, and shrinking would only add more.
func hangExit(spec report.Spec, c any, what string) {
	js, _ := json.Marshal(c)
	rf := report.ReplayFile{Property: spec.Property, Check: spec.Check, Expect: "pass", Failure: what, Tags: []string{"hang"}, Case: js}
	b, _ := json.MarshalIndent(rf, "", " ")
	_ = os.WriteFile(filepath.Join(report.OutDir(), fmt.Sprintf("HANG-%s-%s-shard%d.json", spec.Property, spec.Check, report.Shard())), b, 0o644)
	fmt.Printf("HANG-SUSPECT property=%s: %s\n", spec.Property, what)
	os.Exit(97)
}

// snapTimed runs the snap in a goroutine and waits for it at most the hang limit.
func snapTimed(spec report.Spec, c SnapCase) SnapResult {
	ch := make(chan SnapResult, 1)
	go func() { ch <- snapSafe(c) }()
	select {
	case r := <-ch:
		return r
	case <-time.After(hangLimit()):
		hangExit(spec, c, fmt.Sprintf("SnapPolygon did not return within %v", hangLimit()))
		return SnapResult{}
	}
}

func backtracks(chains [][]P) bool {
	for _, ch := range chains {
		seen := map[P]bool{}
		for i, p := range ch {
			if seen[p] || (i >= 2 && ch[i-2] == p) {
				return true
			}
			seen[p] = true
		}
	}
	return false
}

func oracleC06(c SnapCase) (o report.Outcome) {
	a := analyse(c)
	o.Label("grid=%s", gridClass(c.Grid))
	if !a.inside {
		o.OutOfScope = true
		o.Label("vertex outside the grid")
		return o
	}
	n := 0
	for _, r := range c.Poly {
		n += len(r)
	}
	switch {
	case n <= 10:
		o.Label("vertices<=10")
	case n <= 60:
		o.Label("vertices<=60")
	default:
		o.Label("vertices>60")
	}
	res := snapTimed(specC06, c)
	if res.Panic != nil {
		tags := []string{"panic"}
		txt := panicText(res)
		if strings.Contains(txt, "cannot make Z") {
			tags = append(tags, "panic:cannot-make-Z")
		}
		if a.deepest > 32 {
			tags = append(tags, "level>32")
		}
		o.Failf(tags, "SnapPolygon panicked: %s", txt)
		return o
	}
	if a.deepest <= 32 {
		for _, id := range c.IDs {
			if backtracks(a.level(id).chains) {
				o.NonTrivial = true
				o.Label("step back / repeated centre")
				break
			}
		}
	} else {
		o.Label("level>32 returned normally")
	}
	return o
}

func TestC06(t *testing.T) { report.Run(t, specC06, genC06, oracleC06) }

// ---------------------------------------------------------------------------------------------------------------
// exhaustive sweep of cyclic words over few centres (direct access to kmpDeduplicate / splitRing through the public API)

type WordCase struct {
	K    int   `json:"k"`
	Word []int `json:"word"`
	Keep bool  `json:"keep"`
}

var wordGrid = gen.GridSpec{Kind: "synthetic", NTM: 1, PxLog2: 0}

var specC06Words = report.Spec{Property: "C06", Check: "C06Words", Exhaustive: true,
	Rule: "exhaustive: ALL words without equal neighbours (also first != last) over alphabets of 3, 4, 5 pixel centres in general position up to length (quick 10, 8, 6; thorough 13, 10, 8), as a one-ring polygon on a 16x16 pixel grid, keep-points-and-lines on (thorough: both); " +
		"the snapped ring before de-duplication is exactly the word, so this drives kmpDeduplicate/splitRing with every short repetitive sequence. Oracle as C06 (returns, no panic). Non-trivial: the word contains a step back or a repeated centre.",
	Assumptions: specC06.Assumptions}

func wordToCase(w WordCase) SnapCase {
	c := SnapCase{Grid: wordGrid, IDs: []int{0}, Q: 4}
	c.Flags.Keep = w.Keep
	ring := make([][2]float64, len(w.Word))
	for i, s := range w.Word {
		ce := generalCentres[s]
		ring[i] = [2]float64{float64(ce.X) + 0.5, float64(ce.Y) + 0.5}
	}
	c.Poly = [][][2]float64{ring}
	return c
}

func enumWords(yield func(WordCase) bool) {
	lens := map[int]int{3: 10, 4: 8, 5: 6}
	keeps := []bool{true}
	if report.Tier() == "thorough" {
		lens = map[int]int{3: 13, 4: 10, 5: 8}
		keeps = []bool{true, false}
	}
	shard, n := report.Shard(), 0
	for _, k := range []int{3, 4, 5} {
		for l := 1; l <= lens[k]; l++ {
			w := make([]int, l)
			var rec func(pos int) bool
			rec = func(pos int) bool {
				if pos == l {
					if l > 1 && w[0] == w[l-1] {
						return true
					}
					n++
					if report.Tier() == "thorough" && n%16 != shard {
						return true
					}
					for _, keep := range keeps {
						if !yield(WordCase{K: k, Word: append([]int{}, w...), Keep: keep}) {
							return false
						}
					}
					return true
				}
				for s := 0; s < k; s++ {
					if pos > 0 && w[pos-1] == s {
						continue
					}
					w[pos] = s
					if !rec(pos + 1) {
						return false
					}
				}
				return true
			}
			if !rec(0) {
				return
			}
		}
	}
}

func oracleC06Words(w WordCase) (o report.Outcome) {
	c := wordToCase(w)
	res := snapTimed(specC06Words, c)
	o.Label("k=%d", w.K)
	seen := map[int]bool{}
	for i, s := range w.Word {
		if seen[s] || (i >= 2 && w.Word[i-2] == s) {
			o.NonTrivial = true
		}
		seen[s] = true
	}
	o.Key = fmt.Sprint(w.K, w.Word, w.Keep)
	if res.Panic != nil {
		o.Failf([]string{"panic"}, "SnapPolygon panicked on the centre sequence %v: %s", w.Word, panicText(res))
	}
	return o
}

func TestC06Words(t *testing.T) { report.RunEnum(t, specC06Words, enumWords, oracleC06Words) }

// ---------------------------------------------------------------------------------------------------------------
// periodic words: pre + u^a + v^b + suf (runs of a short cycle followed by runs of another one, e.g. its reverse): the
// removal ranges that kmpDeduplicate marks for such rings can overlap (finding F15), far beyond the lengths of C06Words

type PeriodicCase struct {
	Pre, U, V, Suf string
	A, B           int
	Keep           bool
}

var specC06Periodic = report.Spec{Property: "C06", Check: "C06Periodic", Exhaustive: true,
	Rule: "exhaustive: all words pre + u^a + v^b + suf over 3 pixel centres in general position with u, v cyclic words of length 3 (quick) or 2-3 (thorough) without equal neighbours, a, b in 1..7 (thorough 1..9), pre in {empty, one symbol}, suf in {empty, one symbol, two different symbols}, as a one-ring polygon (keep on; thorough both); " +
		"words with equal neighbours at a seam are skipped. Oracle as C06. Non-trivial: all (every word repeats centres).",
	Assumptions: specC06.Assumptions}

func enumPeriodic(yield func(PeriodicCase) bool) {
	letters := []string{"A", "B", "C"}
	var cyc []string
	for _, x := range letters {
		for _, y := range letters {
			if x == y {
				continue
			}
			if report.Tier() == "thorough" {
				cyc = append(cyc, x+y)
			}
			for _, z := range letters {
				if z != x && z != y {
					cyc = append(cyc, x+y+z)
				}
			}
		}
	}
	pres := []string{"", "A", "B", "C"}
	sufs := []string{""}
	for _, x := range letters {
		sufs = append(sufs, x)
		for _, y := range letters {
			if x != y {
				sufs = append(sufs, x+y)
			}
		}
	}
	maxRep, keeps := 7, []bool{true}
	if report.Tier() == "thorough" {
		maxRep, keeps = 9, []bool{true, false}
	}
	n, shard := 0, report.Shard()
	for _, u := range cyc {
		for _, v := range cyc {
			for a := 1; a <= maxRep; a++ {
				for b := 1; b <= maxRep; b++ {
					for _, pre := range pres {
						for _, suf := range sufs {
							n++
							if report.Tier() == "thorough" && n%16 != shard%16 {
								continue
							}
							for _, keep := range keeps {
								if !yield(PeriodicCase{Pre: pre, U: u, V: v, Suf: suf, A: a, B: b, Keep: keep}) {
									return
								}
							}
						}
					}
				}
			}
		}
	}
}

func oracleC06Periodic(pc PeriodicCase) (o report.Outcome) {
	word := pc.Pre + strings.Repeat(pc.U, pc.A) + strings.Repeat(pc.V, pc.B) + pc.Suf
	w := make([]int, 0, len(word))
	for i, ch := range word {
		if i > 0 && word[i-1] == byte(ch) {
			o.OutOfScope = true // equal neighbours at a seam: the same ring as a shorter word
			return o
		}
		w = append(w, int(ch-'A'))
	}
	if len(w) > 1 && w[0] == w[len(w)-1] {
		o.OutOfScope = true
		return o
	}
	o.Key = fmt.Sprint(pc)
	o.NonTrivial = true
	res := snapTimed(specC06Periodic, wordToCase(WordCase{K: 3, Word: w, Keep: pc.Keep}))
	if res.Panic != nil {
		o.Failf([]string{"panic"}, "SnapPolygon panicked on the centre sequence %s (= %q + %q^%d + %q^%d + %q): %s", word, pc.Pre, pc.U, pc.A, pc.V, pc.B, pc.Suf, panicText(res))
	}
	return o
}

func TestC06Periodic(t *testing.T) {
	report.RunEnum(t, specC06Periodic, enumPeriodic, oracleC06Periodic)
}

// ---------------------------------------------------------------------------------------------------------------
// large structured inputs (sizes that the random generators do not reach); run time recorded, not judged

type LargeCase struct {
	Kind string `json:"kind"`
	N    int    `json:"n"`
	Keep bool   `json:"keep"`
}

var specC06Large = report.Spec{Property: "C06", Check: "C06Large", Exhaustive: true,
	Rule: "a fixed list of large structured inputs on NetherlandsRDNewQuad (tile matrix 8): zig-zags between two pixel centres with 100 / 1000 / 3000 (thorough: 10000) repeats, a 10-symbol back-tracking word repeated 50 / 500 times, thin slivers 300 / 1000 (thorough: 2000) pixels long whose two banks share a pixel row, combs with 200 / 1000 teeth narrower than a pixel, " +
		"a star with 3000 (thorough: 20000) vertices; each with keep on and off. Oracle as C06 (returns without panic within the hang limit, here 120 s because the de-duplication is super-linear on exact back-traces); the run time of every input is recorded in the evidence. Non-trivial: all (each input is thousands of vertices).",
	Assumptions: specC06.Assumptions}

func largePolygon(k string, n int) [][][2]float64 {
	g := gen.RD.MustBuild()
	lev := kernel.Leveled{G: g, Level: g.LevelOf(8), Deepest: g.LevelOf(8)}
	s := lev.Span()
	base := P{X: 20000, Y: 20000}
	at := func(i, j int64, fx, fy float64) [2]float64 {
		lo, _ := lev.Box(P{X: base.X + i, Y: base.Y + j})
		return [2]float64{kernel.FromFixed(lo.X + int64(fx*float64(s))), kernel.FromFixed(lo.Y + int64(fy*float64(s)))}
	}
	var ring [][2]float64
	switch k {
	case "zigzag":
		for i := 0; i < n; i++ {
			ring = append(ring, at(0, 0, 0.5, 0.5), at(3, 1, 0.5, 0.5))
		}
		ring = append(ring, at(1, 4, 0.5, 0.5))
	case "word":
		b := []int{0, 1, 2, 1, 0, 3, 1, 3, 0, 2}
		for i := 0; i < n; i++ {
			for _, sy := range b {
				ce := generalCentres[sy]
				ring = append(ring, at(ce.X, ce.Y, 0.5, 0.5))
			}
		}
	case "sliver": // out along the lower half of a pixel row, back along its upper half
		for i := 0; i <= n; i++ {
			ring = append(ring, at(int64(i), 0, 0.5, 0.25))
		}
		for i := n; i >= 0; i-- {
			ring = append(ring, at(int64(i), 0, 0.5, 0.75))
		}
	case "comb": // teeth a third of a pixel wide, three pixels high
		ring = append(ring, at(0, 0, 0, 0), at(int64(n), 0, 0, 0))
		for i := n - 1; i >= 0; i-- {
			ring = append(ring, at(int64(i), 0, 0.9, 0.5), at(int64(i), 3, 0.8, 0.5), at(int64(i), 3, 0.5, 0.5), at(int64(i), 0, 0.4, 0.5))
		}
	case "star":
		for i := 0; i < n; i++ {
			a := 2 * 3.141592653589793 * float64(i) / float64(n)
			r := float64(n) / 3 * (0.7 + 0.3*float64(i%2))
			ring = append(ring, at(int64(float64(n)/2.5+r*cosf(a)), int64(float64(n)/2.5+r*sinf(a)), 0.37, 0.61))
		}
	}
	return [][][2]float64{ring}
}

func enumLarge(yield func(LargeCase) bool) {
	list := []LargeCase{{Kind: "zigzag", N: 100}, {Kind: "zigzag", N: 1000}, {Kind: "zigzag", N: 3000}, {Kind: "word", N: 50}, {Kind: "word", N: 500},
		{Kind: "sliver", N: 300}, {Kind: "sliver", N: 1000}, {Kind: "comb", N: 200}, {Kind: "comb", N: 1000}, {Kind: "star", N: 3000}}
	if report.Tier() == "thorough" {
		list = append(list, LargeCase{Kind: "zigzag", N: 10000}, LargeCase{Kind: "sliver", N: 2000}, LargeCase{Kind: "star", N: 20000})
	}
	for _, c := range list {
		for _, keep := range []bool{false, true} {
			c.Keep = keep
			if !yield(c) {
				return
			}
		}
	}
}

var largeTimes = map[string]float64{}

func oracleC06Large(lc LargeCase) (o report.Outcome) {
	c := SnapCase{Grid: gen.RD, IDs: []int{8}, Q: 4, Poly: largePolygon(lc.Kind, lc.N)}
	c.Flags.Keep = lc.Keep
	o.NonTrivial = true
	o.Key = fmt.Sprint(lc)
	if os.Getenv("VERIF_HANG_LIMIT") == "" {
		os.Setenv("VERIF_HANG_LIMIT", "120")
		defer os.Unsetenv("VERIF_HANG_LIMIT")
	}
	t0 := time.Now()
	res := snapTimed(specC06Large, c)
	largeTimes[fmt.Sprintf("%s n=%d keep=%v (%d vertices)", lc.Kind, lc.N, lc.Keep, len(c.Poly[0]))] = float64(time.Since(t0).Microseconds()) / 1000
	if res.Panic != nil {
		o.Failf([]string{"panic"}, "SnapPolygon panicked on the large input %v (%d vertices): %s", lc, len(c.Poly[0]), panicText(res))
	}
	return o
}

func TestC06Large(t *testing.T) {
	report.RunEnum(t, specC06Large, enumLarge, oracleC06Large)
	report.Note(specC06Large, "run_time_ms", largeTimes)
}

// ---------------------------------------------------------------------------------------------------------------
// growth of the run time with the vertex count: recorded, not judged

func TestC06Growth(t *testing.T) {
	if report.ReplayOnly() {
		return
	}
	base := []int{0, 1, 2, 1, 0, 3, 1, 3, 0, 2}
	table := map[string]float64{}
	for _, rep := range []int{2, 4, 8, 16, 32} {
		var w []int
		for i := 0; i < rep; i++ {
			w = append(w, base...)
		}
		c := wordToCase(WordCase{K: 4, Word: w, Keep: true})
		best := time.Hour
		for k := 0; k < 5; k++ {
			t0 := time.Now()
			_ = snapTimed(specC06, c)
			if d := time.Since(t0); d < best {
				best = d
			}
		}
		table[fmt.Sprintf("%d vertices", len(w))] = float64(best.Microseconds()) / 1000
	}
	report.Note(specC06, "growth_ms", table)
	_ = kernel.P{}
}

func cosf(a float64) float64 { return math.Cos(a) }
func sinf(a float64) float64 { return math.Sin(a) }
