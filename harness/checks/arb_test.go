package checks

import (
	"pgregory.net/rapid"

	"verifharness/gen"
	"verifharness/kernel"
)

// centres in general position (pixel indices inside an 8x8 window): no segment between two of them meets a third pixel.
var generalCentres = []P{{X: 2, Y: 3}, {X: 2, Y: 7}, {X: 7, Y: 1}, {X: 6, Y: 5}, {X: 1, Y: 1}, {X: 7, Y: 7}}

func init() {
	l := kernel.Leveled{G: &kernel.Grid{Span: 8 * 4, SpanY: 8 * 4}, Level: 3, Deepest: 3}
	hot := kernel.PixSet{}
	for _, p := range generalCentres {
		hot.Add(p)
	}
	for i, a := range generalCentres {
		for j, b := range generalCentres {
			if i == j {
				continue
			}
			r := l.Route(P{X: a.X*4 + 2, Y: a.Y*4 + 2}, P{X: b.X*4 + 2, Y: b.Y*4 + 2}, hot)
			if len(r) != 2 {
				panic("harness: generalCentres are not in general position")
			}
		}
	}
}

// drawArbRings draws 1-4 arbitrary rings in lattice units (q = 4 per pixel), valid or not, ring lengths 0, 1, 2 included.
func drawArbRings(t *rapid.T, maxLen int) (rings [][]P, kinds string) {
	const q = 4
	nr := rapid.SampledFrom([]int{1, 1, 1, 2, 2, 3, 4}).Draw(t, "rings")
	if rapid.IntRange(0, 120).Draw(t, "manyRings") == 61 { // rarely: very many (small) rings
		nr = rapid.IntRange(65, 140).Draw(t, "nManyRings")
		maxLen = min(maxLen, 9)
	}
	for r := 0; r < nr; r++ {
		var ring []P
		kind := rapid.SampledFrom([]string{"scribble", "scribble", "word", "word", "uniform", "tiny", "valid", "frame"}).Draw(t, "ringKind")
		if kind == "frame" && r > 0 {
			kind = "scribble"
		}
		switch kind {
		case "scribble":
			w := rapid.Int64Range(1, 6).Draw(t, "wpx") * q
			ring = gen.Scribble(t, w, rapid.IntRange(3, maxLen).Draw(t, "n"), rapid.IntRange(2, 9).Draw(t, "pool"))
		case "word":
			k := rapid.IntRange(2, 6).Draw(t, "alphabet")
			for _, s := range gen.Word(t, k, maxLen) {
				c := generalCentres[s]
				ring = append(ring, P{X: c.X*q + q/2, Y: c.Y*q + q/2})
			}
		case "uniform":
			w := rapid.Int64Range(1, 10).Draw(t, "wpx") * q
			n := rapid.IntRange(3, min(maxLen, 40)).Draw(t, "n")
			for i := 0; i < n; i++ {
				ring = append(ring, P{X: rapid.Int64Range(0, w).Draw(t, "x"), Y: rapid.Int64Range(0, w).Draw(t, "y")})
			}
		case "tiny":
			n := rapid.IntRange(0, 2).Draw(t, "n")
			for i := 0; i < n; i++ {
				ring = append(ring, P{X: rapid.Int64Range(0, 3*q).Draw(t, "x"), Y: rapid.Int64Range(0, 3*q).Draw(t, "y")})
			}
		case "valid":
			ring = gen.Grow(t, rapid.Int64Range(1, 8).Draw(t, "wpx")*q, rapid.IntRange(3, min(maxLen, 30)).Draw(t, "n"))
		case "frame": // shell and hole that snap to the same ring when the frame is thinner than a pixel
			fr := gen.Annulus(t, q)
			rings = append(rings, fr[0], fr[1])
			kinds += "frame,"
			nr = min(nr, 3)
			r++
			continue
		}
		if r > 0 && len(ring) > 0 && rapid.Bool().Draw(t, "shiftRing") {
			dx, dy := rapid.Int64Range(0, 4*q).Draw(t, "dx"), rapid.Int64Range(0, 4*q).Draw(t, "dy")
			for i := range ring {
				ring[i] = P{X: ring[i].X + dx, Y: ring[i].Y + dy}
			}
		}
		rings = append(rings, ring)
		kinds += kind + ","
	}
	return rings, kinds
}

// placeArb places arbitrary lattice rings (4 steps per pixel) inside the grid at the level of one of the ids.
func placeArb(t *rapid.T, g *kernel.Grid, ids []int, rings [][]P) (poly [][][2]float64, anchor string) {
	maxID := 0
	for _, id := range ids {
		maxID = max(maxID, id)
	}
	focus := ids[rapid.IntRange(0, len(ids)-1).Draw(t, "focus")]
	lev := kernel.Leveled{G: g, Level: g.LevelOf(focus), Deepest: g.LevelOf(maxID)}
	var ext int64 = 1
	for _, r := range rings {
		for _, p := range r {
			ext = max(ext, p.X, p.Y)
		}
	}
	wpx := ext/4 + 2
	size := int64(1) << lev.Level
	for wpx > size { // shrink the lattice shape into the grid (coarse levels have only 16 pixels)
		for _, r := range rings {
			for i := range r {
				r[i] = P{X: r[i].X / 2, Y: r[i].Y / 2}
			}
		}
		ext /= 2
		wpx = ext/4 + 2
	}
	an, cls := gen.Anchor(t, size, wpx)
	pl := gen.Placement{L: lev, Q: 4, Anchor: an}
	poly, _ = pl.Floats(rings)
	for i := range poly {
		if poly[i] == nil {
			poly[i] = [][2]float64{}
		}
	}
	return poly, cls
}

// drawArbCase draws an arbitrary polygon placed inside the grid.
func drawArbCase(t *rapid.T, grid func(*rapid.T) gen.GridSpec, maxIDs, maxLen int) SnapCase {
	c := SnapCase{Grid: grid(t), Q: 4}
	g := c.Grid.MustBuild()
	c.IDs = gen.IDs(t, g, maxIDs, maxAddressableID(g))
	c.Flags = gen.DrawFlags(t)
	c.Flags.Ignore = false
	if rapid.IntRange(0, 80).Draw(t, "noRings") == 41 { // POLYGON EMPTY: a polygon without any ring (GeoPackages hold them)
		c.Shape, c.Poly, c.Anchor = "no-rings", [][][2]float64{}, "none"
		return c
	}
	rings, kinds := drawArbRings(t, maxLen)
	c.Shape = kinds
	c.Poly, c.Anchor = placeArb(t, g, c.IDs, rings)
	return c
}
