package checks

import (
	"fmt"
	"math/bits"
	"testing"

	"github.com/pdok/texel/morton"
	"pgregory.net/rapid"

	"verifharness/report"
)

// refZ interleaves bit by bit: bit i of x goes to bit 2i, bit i of y to bit 2i+1.
func refZ(x, y uint64) uint64 {
	var z uint64
	for i := uint(0); i < 32; i++ {
		z |= ((x >> i) & 1) << (2 * i)
		z |= ((y >> i) & 1) << (2*i + 1)
	}
	return z
}

type ZCase struct {
	A, B, C, D uint64 // operands: x = A|B, y = C|D ; second pair (B, D) also used for injectivity
}

func mustPanic(f func()) (panicked bool) {
	defer func() { panicked = recover() != nil }()
	f()
	return false
}

func checkZ(x, y uint64) string {
	z, ok := morton.ToZ(uint(x), uint(y))
	if x > 0xFFFFFFFF || y > 0xFFFFFFFF {
		if ok {
			return fmt.Sprintf("ToZ(%#x, %#x) reports ok although an address does not fit in 32 bits (silent aliasing)", x, y)
		}
		if !mustPanic(func() { morton.MustToZ(uint(x), uint(y)) }) {
			return fmt.Sprintf("MustToZ(%#x, %#x) does not panic although an address does not fit in 32 bits", x, y)
		}
		// the address that the refused one would alias to must still be encoded correctly, also right after the refusal
		ax, ay := x&0xFFFFFFFF, y&0xFFFFFFFF
		if za, oka := morton.ToZ(uint(ax), uint(ay)); !oka || uint64(za) != refZ(ax, ay) {
			return fmt.Sprintf("right after the refused ToZ(%#x, %#x): ToZ(%#x, %#x) = %#x (ok=%v), bit interleaving gives %#x", x, y, ax, ay, za, oka, refZ(ax, ay))
		}
		return ""
	}
	if !ok {
		return fmt.Sprintf("ToZ(%#x, %#x) reports not encodable for 32 bit addresses", x, y)
	}
	if uint64(z) != refZ(x, y) {
		return fmt.Sprintf("ToZ(%#x, %#x) = %#x, bit interleaving gives %#x", x, y, z, refZ(x, y))
	}
	if mustPanic(func() { morton.MustToZ(uint(x), uint(y)) }) {
		return fmt.Sprintf("MustToZ(%#x, %#x) panics for 32 bit addresses", x, y)
	}
	if fx, fy := morton.FromZ(z); uint64(fx) != x || uint64(fy) != y {
		return fmt.Sprintf("FromZ(ToZ(%#x, %#x)) = (%#x, %#x)", x, y, fx, fy)
	}
	if pz, _ := morton.ToZ(uint(x>>1), uint(y>>1)); pz != z>>2 {
		return fmt.Sprintf("parent key: ToZ(%#x>>1, %#x>>1) = %#x but ToZ(x, y)>>2 = %#x", x, y, pz, z>>2)
	}
	return ""
}

var specC17 = report.Spec{Property: "C17", Check: "C17",
	Rule: "random pairs: operands biased to wide values (>= 26 significant bits), sparse bit patterns, and 1 in 6 cases a value above 2^32-1 on either side. Oracle: ToZ equals a bit-by-bit interleave reference and reports ok, FromZ(ToZ) is the identity, ToZ(x>>1, y>>1) == ToZ(x,y)>>2, " +
		"linearity ToZ(a|b, c|d) == ToZ(a,c) | ToZ(b,d), two distinct pairs get distinct keys; above 2^32-1: ok == false and MustToZ panics. Non-trivial: some operand has a bit at position >= 16. Distinct by operands.",
	Assumptions: []string{"bit-linearity together with the exhaustive one/two-bit patterns is an argument for all 2^64 pairs, not exhaustive coverage"}}

func wide(t *rapid.T, label string) uint64 {
	switch rapid.IntRange(0, 10).Draw(t, label+"kind") / 2 {
	case 0:
		return uint64(rapid.Uint32().Draw(t, label))
	case 1: // wide: top bits set
		return uint64(rapid.Uint32Range(1<<26, 0xFFFFFFFF).Draw(t, label))
	case 2: // sparse
		var v uint64
		for k := rapid.IntRange(1, 4).Draw(t, label+"bits"); k > 0; k-- {
			v |= 1 << uint(rapid.IntRange(0, 31).Draw(t, label+"bit"))
		}
		return v
	case 3: // dense with holes
		return uint64(0xFFFFFFFF &^ (uint32(1) << uint(rapid.IntRange(0, 31).Draw(t, label+"hole"))))
	case 4: // boundary values
		return rapid.SampledFrom([]uint64{0, 1, 0xFFFF, 0x10000, 0xFFFFFFFF, 0x80000000, 0x7FFFFFFF, 0xAAAAAAAA, 0x55555555}).Draw(t, label)
	default: // too wide
		return uint64(rapid.Uint64Range(1<<32, 1<<40).Draw(t, label))
	}
}

func genC17(t *rapid.T) ZCase {
	return ZCase{A: wide(t, "a"), B: wide(t, "b"), C: wide(t, "c"), D: wide(t, "d")}
}

func oracleC17(c ZCase) (o report.Outcome) {
	o.Key = fmt.Sprint(c)
	for _, v := range []uint64{c.A, c.B, c.C, c.D} {
		if v>>16 != 0 {
			o.NonTrivial = true
		}
	}
	over := false
	for _, v := range []uint64{c.A, c.B, c.C, c.D} {
		if v > 0xFFFFFFFF {
			over = true
		}
	}
	if over {
		o.Label("above 2^32")
	} else {
		o.Label("bits=%d", (bits.Len64(c.A|c.B|c.C|c.D)+7)/8*8)
	}
	for _, pr := range [][2]uint64{{c.A, c.C}, {c.B, c.D}, {c.A | c.B, c.C | c.D}, {c.A, c.D}} {
		if why := checkZ(pr[0], pr[1]); why != "" {
			o.Failf([]string{"morton"}, "%s", why)
			return o
		}
	}
	if !over {
		zac, _ := morton.ToZ(uint(c.A), uint(c.C))
		zbd, _ := morton.ToZ(uint(c.B), uint(c.D))
		zall, _ := morton.ToZ(uint(c.A|c.B), uint(c.C|c.D))
		if zall != zac|zbd {
			o.Failf([]string{"morton"}, "linearity: ToZ(%#x|%#x, %#x|%#x) = %#x but ToZ(a,c)|ToZ(b,d) = %#x", c.A, c.B, c.C, c.D, zall, zac|zbd)
			return o
		}
		if (c.A != c.B || c.C != c.D) && zac == zbd {
			o.Failf([]string{"morton"}, "distinct addresses (%#x,%#x) and (%#x,%#x) share the key %#x", c.A, c.C, c.B, c.D, zac)
		}
	}
	return o
}

func TestC17(t *testing.T) { report.Run(t, specC17, genC17, oracleC17) }

// exhaustive one and two bit patterns
type BitCase struct {
	I, J int // bit positions in the 64 bit concatenation x (0..31) | y (32..63); J == -1: one bit
}

var specC17Bits = report.Spec{Property: "C17", Check: "C17Bits", Exhaustive: true,
	Rule: "exhaustive: all 64 one-bit and all 2016 two-bit patterns of the pair (x, y), plus each of them complemented within 32 bits; same oracle as C17 for a single pair. Non-trivial: a bit at position >= 16 of x or y."}

func enumBits(yield func(BitCase) bool) {
	for i := 0; i < 64; i++ {
		if !yield(BitCase{I: i, J: -1}) {
			return
		}
		for j := i + 1; j < 64; j++ {
			if !yield(BitCase{I: i, J: j}) {
				return
			}
		}
	}
}

func oracleC17Bits(b BitCase) (o report.Outcome) {
	v := uint64(1) << uint(b.I)
	if b.J >= 0 {
		v |= uint64(1) << uint(b.J)
	}
	x, y := v&0xFFFFFFFF, v>>32
	o.Key = fmt.Sprint(b)
	o.NonTrivial = x>>16 != 0 || y>>16 != 0
	for _, pr := range [][2]uint64{{x, y}, {^x & 0xFFFFFFFF, ^y & 0xFFFFFFFF}} {
		if why := checkZ(pr[0], pr[1]); why != "" {
			o.Failf([]string{"morton"}, "%s", why)
			return o
		}
	}
	return o
}

func TestC17Bits(t *testing.T) { report.RunEnum(t, specC17Bits, enumBits, oracleC17Bits) }

// the first thing a fresh process does with the package is to DECODE: nothing may depend on an earlier encode
type ColdCase struct {
	Z uint64 `json:"z"`
}

var specC17Cold = report.Spec{Property: "C17", Check: "C17Cold", Exhaustive: true,
	Rule: "a fresh process whose first calls into the package are FromZ on a fixed list of 70 keys (all single bits, alternating patterns, all ones), compared with a bit-by-bit de-interleave reference; the process never encodes. Non-trivial: a key with a bit at position >= 32."}

func TestC17Cold(t *testing.T) {
	report.RunEnum(t, specC17Cold, func(yield func(ColdCase) bool) {
		keys := []uint64{0xAAAAAAAAAAAAAAAA, 3, 2, 1, 0, 0x5555555555555555, 0xFFFFFFFFFFFFFFFF, 0x00000000FFFFFFFF, 0xFFFFFFFF00000000}
		for i := uint(0); i < 64; i++ {
			keys = append(keys, uint64(1)<<i)
		}
		for _, k := range keys {
			if !yield(ColdCase{Z: k}) {
				return
			}
		}
	}, func(c ColdCase) (o report.Outcome) {
		var rx, ry uint64
		for i := uint(0); i < 32; i++ {
			rx |= ((c.Z >> (2 * i)) & 1) << i
			ry |= ((c.Z >> (2*i + 1)) & 1) << i
		}
		o.Key = fmt.Sprint(c.Z)
		o.NonTrivial = c.Z>>32 != 0
		x, y := morton.FromZ(uint(c.Z))
		if uint64(x) != rx || uint64(y) != ry {
			o.Failf([]string{"morton"}, "FromZ(%#x) = (%#x, %#x) as one of the first calls of the process, de-interleaving gives (%#x, %#x)", c.Z, x, y, rx, ry)
			return o
		}
		return o // (no encoding here: every call of this process into the package is a decode)
	})
}
