package checks

import (
	"fmt"
	"testing"

	"github.com/go-spatial/geom"

	"verifharness/report"
)

// C15Ref: "expressed in x,y order" needs a ground truth that is not derived from the documents themselves: a document whose point of
// origin is written in the other axis order is self-consistent. The table below is knowledge about the coordinate reference systems
// (where their area of use lies, in easting/longitude = x and northing/latitude = y), not about this repository.
var specC15Ref = report.Spec{Property: "C15", Check: "C15Ref", Exhaustive: true,
	Rule: "exhaustive: for every built-in set one or two reference positions given in x,y order whose relation to the set's extent is known from the definition of its CRS (a place inside the area of use: Amersfoort and the north-west of the RD grid, Wellington in NZTM2000, 170 E 10 N, the false origins of the polar and Lambert systems, ...) and, where the extent is not symmetric, the transposed position, which lies outside: " +
		"MatrixBoundingBox of the shallowest matrix without variable widths contains the position (or not), FromNative on that matrix returns a tile (or none), and ToNative of that tile returns a corner within one tile size to the upper left of the position. Non-trivial: all.",
	Assumptions: []string{"the table of reference positions is external knowledge about EPSG:28992, 3857, 3395, 2193, 3035, 5041, 5042, 32631, 3978, 5482, 4326 and CRS84"}}

type RefCase struct {
	Set    string  `json:"set"`
	X      float64 `json:"x"`
	Y      float64 `json:"y"`
	Inside bool    `json:"inside"`
	What   string  `json:"what"`
}

var refTable = []RefCase{
	{"NetherlandsRDNewQuad", 155000, 463000, true, "Amersfoort, the origin of the RD system"},
	{"NetherlandsRDNewQuad", -200000, 800000, true, "north-west of the RD grid"},
	{"NetherlandsRDNewQuad", 800000, -200000, false, "the same, transposed"},
	{"WebMercatorQuad", 545000, 6860000, true, "Amsterdam in EPSG:3857"},
	{"WorldMercatorWGS84Quad", 545000, 6830000, true, "Amsterdam in EPSG:3395"},
	{"WorldCRS84Quad", 170, 10, true, "170 E 10 N"},
	{"WorldCRS84Quad", 10, 170, false, "the same, transposed (latitude 170)"},
	{"WGS1984Quad", 170, 10, true, "170 E 10 N"},
	{"WGS1984Quad", 10, 170, false, "the same, transposed (latitude 170)"},
	{"CDB1GlobalGrid", 170, 10, true, "170 E 10 N"},
	{"CDB1GlobalGrid", 10, 170, false, "the same, transposed"},
	{"GNOSISGlobalGrid", 170, 10, true, "170 E 10 N"},
	{"GNOSISGlobalGrid", 10, 170, false, "the same, transposed"},
	{"NZTM2000Quad", 1748735, 5427916, true, "Wellington in NZTM2000 (easting, northing)"},
	{"EuropeanETRS89_LAEAQuad", 4321000, 3210000, true, "the false origin of ETRS89-LAEA (52 N 10 E)"},
	{"UPSArcticWGS84Quad", 2000000, 2000000, true, "the north pole in UPS north"},
	{"UPSAntarcticWGS84Quad", 2000000, 2000000, true, "the south pole in UPS south"},
	{"UTM31WGS84Quad", 500000, 5500000, true, "the central meridian of zone 31 at about 50 N"},
	{"CanadianNAD83_LCC", -30000000, 35000000, true, "north-west of the Canada Atlas Lambert grid"},
	{"CanadianNAD83_LCC", 35000000, -30000000, false, "the same, transposed"},
	{"LINZAntarticaMapTilegrid", 5000000, 1000000, true, "the south pole in RSRGD2000 / RSPS2000 (false easting 5 000 000, false northing 1 000 000)"},
}

func oracleC15Ref(c RefCase) (o report.Outcome) {
	loadSets()
	o.NonTrivial = true
	o.Key = fmt.Sprint(c.Set, c.X, c.Y)
	tms, ok := setsTM[c.Set]
	if !ok {
		o.Failf([]string{"ref"}, "built-in set %s is missing", c.Set)
		return o
	}
	ids := setsIDs[c.Set]
	if len(ids) == 0 {
		o.OutOfScope = true
		return o
	}
	z := ids[0]
	var pan any
	func() {
		defer func() { pan = recover() }()
		bl, tr, err := tms.MatrixBoundingBox(z)
		if err != nil {
			o.Failf([]string{"ref"}, "%s: MatrixBoundingBox(%d): %v", c.Set, z, err)
			return
		}
		in := c.X >= bl[0] && c.X < tr[0] && c.Y > bl[1] && c.Y <= tr[1]
		if in != c.Inside {
			o.Failf([]string{"ref"}, "%s: the position x=%v y=%v (%s) is expected %s the extent of the set; MatrixBoundingBox(%d) = [%v %v] - [%v %v] says the opposite: the set is not expressed in x,y order (or lies elsewhere)", c.Set, c.X, c.Y, c.What, map[bool]string{true: "inside", false: "outside"}[c.Inside], z, bl[0], bl[1], tr[0], tr[1])
			return
		}
		tile, ok := tms.FromNative(uint(z), geom.Point{c.X, c.Y})
		if ok != c.Inside {
			o.Failf([]string{"ref"}, "%s: FromNative(%d, x=%v y=%v) (%s) returns ok=%v, expected %v", c.Set, z, c.X, c.Y, c.What, ok, c.Inside)
			return
		}
		if ok {
			tm := tms.TileMatrices[z]
			corner, ok2 := tms.ToNative(tile)
			tsx, tsy := float64(tm.TileWidth)*tm.CellSize, float64(tm.TileHeight)*tm.CellSize
			if !ok2 || !(corner[0] <= c.X && c.X < corner[0]+tsx*(1+1e-9) && corner[1] >= c.Y && c.Y > corner[1]-tsy*(1+1e-9)) {
				o.Failf([]string{"ref"}, "%s: the tile %v that FromNative gives for x=%v y=%v has its upper left corner at %v (tile size %v x %v): the position is not in it", c.Set, tile, c.X, c.Y, corner, tsx, tsy)
			}
		}
	}()
	if pan != nil {
		o.Failf([]string{"ref"}, "%s: panic %v", c.Set, pan)
	}
	return o
}

func TestC15Ref(t *testing.T) {
	report.RunEnum(t, specC15Ref, func(yield func(RefCase) bool) {
		for _, c := range refTable {
			if !yield(c) {
				return
			}
		}
	}, oracleC15Ref)
}
