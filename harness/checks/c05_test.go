package checks

import (
	"fmt"
	"reflect"
	"testing"
	"time"

	"github.com/go-spatial/geom"
	"github.com/pdok/texel/processing"
	"github.com/pdok/texel/snap"
	"pgregory.net/rapid"

	"verifharness/gen"
	"verifharness/kernel"
	"verifharness/report"
)

var specC05 = report.Spec{Property: "C05", Check: "C05",
	Rule: "arbitrary polygons inside the grid (1-4 rings; rings from a small pool of positions, from words over pixel centres in general position (walk/back-track/repeat/zig-zag grammar), uniform, 0-2 vertices, or valid) " +
		"x grids (synthetic, NetherlandsRDNewQuad, WebMercatorQuad, UPSArcticWGS84Quad, EuropeanETRS89_LAEAQuad: fixed point magnitudes above 2^53 and y,x axis order included) x 1-3 ids x reverse flag; every case is snapped with keep-points-and-lines off AND on. " +
		"Oracle (structural): no tile matrix maps to an empty list; ring 0 is the shell: rings with non-zero exact area are ccw for ring 0 and cw otherwise (opposite under reverse); last vertex != first; no equal consecutive vertices; no vertex value twice in a ring; no empty ring; " +
		"without keep every ring has >= 3 vertices; with keep every tile matrix present without keep starts with exactly those polygons and continues with one-ring polygons of 1 or 2 vertices; rings with < 3 vertices only occur as such one-ring polygons. " +
		"Non-trivial: for some tile matrix the returned rings differ in number or vertex count from the routed rings of the reference model (split / de-duplicated / collapsed), or collapsed parts were returned with keep. Distinct by case content.",
	Assumptions: []string{"pixel indices of returned coordinates are recovered with the harness' grid model (extent from tms20.MatrixBoundingBox)"}}

func genC05(t *rapid.T) SnapCase { return drawArbCase(t, gen.AnyGridWide, 3, report.Scale(60, 150)) }

// wellFormed checks the per-polygon invariants of C05 for one tile matrix.
func wellFormed(lev kernel.Leveled, polys []geom.Polygon, reverse, keep bool) string {
	if len(polys) == 0 {
		return "tile matrix is mapped to an empty list"
	}
	for pi, pg := range polys {
		if len(pg) == 0 {
			return fmt.Sprintf("polygon %d has no rings", pi)
		}
		for ri, rg := range pg {
			n := len(rg)
			if n == 0 {
				return fmt.Sprintf("polygon %d ring %d is empty", pi, ri)
			}
			if n < 3 && !(keep && len(pg) == 1) {
				return fmt.Sprintf("polygon %d ring %d has %d vertices (keep=%v, rings in polygon %d)", pi, ri, n, keep, len(pg))
			}
			seen := map[[2]float64]int{}
			for i, v := range rg {
				if j, dup := seen[v]; dup {
					if i == n-1 && j == 0 {
						return fmt.Sprintf("polygon %d ring %d repeats its first vertex %v at the end", pi, ri, v)
					}
					if j == i-1 {
						return fmt.Sprintf("polygon %d ring %d has two equal consecutive vertices %v", pi, ri, v)
					}
					return fmt.Sprintf("polygon %d ring %d visits vertex %v twice (positions %d and %d): %v", pi, ri, v, j, i, rg)
				}
				seen[v] = i
			}
			if n >= 3 {
				sign := kernel.Area2Sign(outRing(lev, rg))
				want := 1
				if ri > 0 {
					want = -1
				}
				if reverse {
					want = -want
				}
				if sign != 0 && sign != want {
					return fmt.Sprintf("polygon %d ring %d (%s) has the wrong orientation (area sign %d, reverse=%v): %v", pi, ri, map[bool]string{true: "shell", false: "hole"}[ri == 0], sign, reverse, rg)
				}
			}
		}
	}
	return ""
}

func oracleC05(c SnapCase) (o report.Outcome) {
	a := analyse(c)
	o.Label("grid=%s", gridClass(c.Grid))
	if !a.inside {
		o.OutOfScope = true
		o.Label("vertex outside the grid")
		return o
	}
	cfgOff, cfgOn := c.config(), c.config()
	cfgOff.KeepPointsAndLines, cfgOn.KeepPointsAndLines = false, true
	off := snapWith(c, c.Poly, c.IDs, cfgOff)
	on := snapWith(c, c.Poly, c.IDs, cfgOn)
	if off.Panic != nil || on.Panic != nil {
		o.OutOfScope = true
		o.Label("snapping panicked (decided by C06)")
		return o
	}
	for _, pair := range []struct {
		keep bool
		res  SnapResult
	}{{false, off}, {true, on}} {
		for _, id := range sortedIDs(pair.res.Out) {
			lev := kernel.Leveled{G: a.g, Level: a.g.LevelOf(id), Deepest: a.deepest}
			if why := wellFormed(lev, pair.res.Out[id], c.Flags.Reverse, pair.keep); why != "" {
				o.Failf([]string{"malformed"}, "tile matrix %d, keep=%v: %s; returned %v", id, pair.keep, why, pair.res.Out[id])
				return o
			}
		}
	}
	for _, id := range sortedIDs(off.Out) {
		withKeep, present := on.Out[id]
		base := off.Out[id]
		if !present || len(withKeep) < len(base) || !reflect.DeepEqual(withKeep[:len(base)], base) {
			o.Failf([]string{"keep-prefix"}, "tile matrix %d: with keep the result does not start with the polygons returned without keep: without %v, with %v", id, base, withKeep)
			return o
		}
		for _, pg := range withKeep[len(base):] {
			if len(pg) != 1 || len(pg[0]) < 1 || len(pg[0]) > 2 {
				o.Failf([]string{"keep-tail"}, "tile matrix %d: with keep, the extra polygon %v is not a single ring of 1 or 2 vertices", id, pg)
				return o
			}
		}
		if len(withKeep) > len(base) {
			o.NonTrivial = true
			o.Label("collapsed parts kept")
		}
	}
	// non-triviality: compare with the routed rings
	for _, id := range c.IDs {
		li := a.level(id)
		nr, nv := 0, 0
		for _, ch := range li.chains {
			if len(ch) >= 3 {
				nr++
				nv += len(ch)
			}
		}
		gr, gv := 0, 0
		for _, pg := range off.Out[id] {
			for _, rg := range pg {
				gr++
				gv += len(rg)
			}
		}
		if gr != nr || gv != nv {
			o.NonTrivial = true
			o.Label("split/dedup/collapse")
		}
		if _, ok := off.Out[id]; !ok {
			o.Label("tile matrix absent without keep")
		}
	}
	return o
}

func TestC05(t *testing.T) { report.Run(t, specC05, genC05, oracleC05) }

// ---------------------------------------------------------------------------------------------------------------
// the same policy one level up: what processing hands to the targets for polygons and multipolygons

type C05PipeCase struct {
	SnapCase
	Parts [][][][2]float64 `json:"parts"` // further polygons: the feature is a multipolygon of Poly and Parts
}

var specC05Pipe = report.Spec{Property: "C05", Check: "C05Pipe",
	Rule: "a polygon or a multipolygon of 1-3 arbitrary polygons (as C05) sent as one feature through processing.ProcessFeatures with the REAL snapping function and one recording target per requested tile matrix; " +
		"oracle: a target receives the feature iff snapping returned geometry for its tile matrix for at least one part (computed by calling snap.SnapPolygon directly); what it receives is a polygon or a multipolygon with >= 1 polygons, never an empty list, and every polygon satisfies the ring invariants of C05. " +
		"Non-trivial: >= 2 tile matrices and the feature is delivered to some targets and withheld from others."}

func genC05Pipe(t *rapid.T) C05PipeCase {
	c := C05PipeCase{SnapCase: drawArbCase(t, gen.AnyGridWide, 3, 30)}
	g := c.Grid.MustBuild()
	for k := rapid.IntRange(0, 2).Draw(t, "moreParts"); k > 0; k-- {
		rings, _ := drawArbRings(t, 20)
		poly, _ := placeArb(t, g, c.IDs, rings)
		c.Parts = append(c.Parts, poly)
	}
	return c
}

func oracleC05Pipe(c C05PipeCase) (o report.Outcome) {
	g := c.Grid.MustBuild()
	parts := append([][][][2]float64{c.Poly}, c.Parts...)
	maxID := 0
	for _, id := range c.IDs {
		maxID = max(maxID, id)
	}
	deepest := g.LevelOf(maxID)
	for _, p := range gen.ReadBack(flatten(parts)) {
		for _, v := range p {
			if !g.Inside(v, deepest) {
				o.OutOfScope = true
				o.Label("vertex outside the grid")
				return o
			}
		}
	}
	expectDelivered := map[int]bool{}
	for _, p := range parts {
		res := snapWith(c.SnapCase, p, c.IDs, c.config())
		if res.Panic != nil {
			o.OutOfScope = true
			o.Label("snapping panicked (decided by C06)")
			return o
		}
		for id, polys := range res.Out {
			if len(polys) > 0 {
				expectDelivered[id] = true
			}
		}
	}
	var feature geom.Geometry
	if len(parts) == 1 {
		feature = clonePoly(parts[0])
	} else {
		mp := geom.MultiPolygon{}
		for _, p := range parts {
			mp = append(mp, clonePoly(p))
		}
		feature = mp
	}
	pc := PipeCase{Targets: c.IDs}
	run := &pipeRun{c: pc, returned: make(chan string, 1), snapGate: newGate(true)}
	run.src = &fakeSource{g: newGate(true), d: &delayer{}, feats: []*fakeFeature{{idx: 0, cols: []interface{}{int64(1)}, g: feature}}}
	targets := map[int]processing.Target{}
	for _, id := range c.IDs {
		ft := &fakeTarget{id: id, g: newGate(true), d: &delayer{}}
		run.targets = append(run.targets, ft)
		targets[id] = ft
	}
	done := make(chan any, 1)
	go func() {
		defer func() { done <- recover() }()
		processing.ProcessFeatures(run.src, targets, func(p geom.Polygon, ids []int) map[int][]geom.Polygon {
			return snap.SnapPolygon(p, g.TMS, ids, c.config())
		})
	}()
	select {
	case <-done:
	case <-time.After(hangLimit()):
		hangExit(specC05Pipe, c, "ProcessFeatures did not return")
	}
	delivered, withheld := 0, 0
	for _, ft := range run.targets {
		got := ft.snapshot()
		if expectDelivered[ft.id] {
			delivered++
		} else {
			withheld++
		}
		if len(got) > 1 || (len(got) == 1) != expectDelivered[ft.id] {
			o.Failf([]string{"collapse-policy"}, "tile matrix %d: snapping returned geometry: %v, but the target received %d features: %v", ft.id, expectDelivered[ft.id], len(got), got)
			return o
		}
		if len(got) == 0 {
			continue
		}
		var polys []geom.Polygon
		switch gg := got[0].geom.(type) {
		case geom.Polygon:
			polys = []geom.Polygon{gg}
		case geom.MultiPolygon:
			for _, p := range gg {
				polys = append(polys, p)
			}
		default:
			o.Failf([]string{"collapse-policy"}, "tile matrix %d: delivered geometry is a %T", ft.id, got[0].geom)
			return o
		}
		lev := kernel.Leveled{G: g, Level: g.LevelOf(ft.id), Deepest: deepest}
		if why := wellFormed(lev, polys, c.Flags.Reverse, c.Flags.Keep); why != "" {
			o.Failf([]string{"malformed"}, "tile matrix %d: delivered geometry: %s; %v", ft.id, why, got[0].geom)
			return o
		}
	}
	o.NonTrivial = len(c.IDs) >= 2 && delivered > 0 && withheld > 0
	o.Label("parts=%d", len(parts))
	return o
}

func flatten(parts [][][][2]float64) [][][2]float64 {
	var out [][][2]float64
	for _, p := range parts {
		out = append(out, p...)
	}
	return out
}

func TestC05Pipe(t *testing.T) { report.Run(t, specC05Pipe, genC05Pipe, oracleC05Pipe) }
