package checks

import (
	"fmt"
	"reflect"
	"testing"

	"github.com/go-spatial/geom"
	"pgregory.net/rapid"

	"verifharness/gen"
	"verifharness/kernel"
	"verifharness/report"
)

var specC05 = report.Spec{Property: "C05", Check: "C05",
	Rule: "arbitrary polygons inside the grid (1-4 rings; rings from a small pool of positions, from words over pixel centres in general position (walk/back-track/repeat/zig-zag grammar), uniform, 0-2 vertices, or valid) " +
		"x grids (synthetic, NetherlandsRDNewQuad, WebMercatorQuad, UPSArcticWGS84Quad, EuropeanETRS89_LAEAQuad: fixed point magnitudes above 2^53 and y,x axis order included) x 1-3 ids x reverse flag; every case is snapped with keep-points-and-lines off AND on. " +
		"Oracle (structural): no tile matrix maps to an empty list; ring 0 is the shell: rings with non-zero exact area are ccw for ring 0 and cw otherwise (opposite under reverse); last vertex != first; no equal consecutive vertices; no vertex value twice in a ring; no empty ring; " +
		"without keep every ring has >= 3 vertices; with keep every tile matrix present without keep starts with exactly those polygons and continues with one-ring polygons of 1 or 2 vertices; rings with < 3 vertices only occur as such one-ring polygons. " +
		"Non-trivial: for some tile matrix the returned rings differ in number or vertex count from the routed rings of the reference model (split / de-duplicated / collapsed), or collapsed parts were returned with keep. Distinct by case content.",
	Assumptions: []string{"pixel indices of returned coordinates are recovered with the harness' grid model (extent from tms20.MatrixBoundingBox)"}}

func genC05(t *rapid.T) SnapCase { return drawArbCase(t, gen.AnyGridWide, 3, 60) }

// wellFormed checks the per-polygon invariants of C05 for one tile matrix.
func wellFormed(lev kernel.Leveled, polys []geom.Polygon, reverse, keep bool) string {
	if len(polys) == 0 {
		return "tile matrix is mapped to an empty list"
	}
	for pi, pg := range polys {
		if len(pg) == 0 {
			return fmt.Sprintf("polygon %d has no rings", pi)
		}
		for ri, rg := range pg {
			n := len(rg)
			if n == 0 {
				return fmt.Sprintf("polygon %d ring %d is empty", pi, ri)
			}
			if n < 3 && !(keep && len(pg) == 1) {
				return fmt.Sprintf("polygon %d ring %d has %d vertices (keep=%v, rings in polygon %d)", pi, ri, n, keep, len(pg))
			}
			seen := map[[2]float64]int{}
			for i, v := range rg {
				if j, dup := seen[v]; dup {
					if i == n-1 && j == 0 {
						return fmt.Sprintf("polygon %d ring %d repeats its first vertex %v at the end", pi, ri, v)
					}
					if j == i-1 {
						return fmt.Sprintf("polygon %d ring %d has two equal consecutive vertices %v", pi, ri, v)
					}
					return fmt.Sprintf("polygon %d ring %d visits vertex %v twice (positions %d and %d): %v", pi, ri, v, j, i, rg)
				}
				seen[v] = i
			}
			if n >= 3 {
				sign := kernel.Area2Sign(outRing(lev, rg))
				want := 1
				if ri > 0 {
					want = -1
				}
				if reverse {
					want = -want
				}
				if sign != 0 && sign != want {
					return fmt.Sprintf("polygon %d ring %d (%s) has the wrong orientation (area sign %d, reverse=%v): %v", pi, ri, map[bool]string{true: "shell", false: "hole"}[ri == 0], sign, reverse, rg)
				}
			}
		}
	}
	return ""
}

func oracleC05(c SnapCase) (o report.Outcome) {
	a := analyse(c)
	o.Label("grid=%s", gridClass(c.Grid))
	if !a.inside {
		o.OutOfScope = true
		o.Label("vertex outside the grid")
		return o
	}
	cfgOff, cfgOn := c.config(), c.config()
	cfgOff.KeepPointsAndLines, cfgOn.KeepPointsAndLines = false, true
	off := snapWith(c, c.Poly, c.IDs, cfgOff)
	on := snapWith(c, c.Poly, c.IDs, cfgOn)
	if off.Panic != nil || on.Panic != nil {
		o.OutOfScope = true
		o.Label("snapping panicked (decided by C06)")
		return o
	}
	for _, pair := range []struct {
		keep bool
		res  SnapResult
	}{{false, off}, {true, on}} {
		for _, id := range sortedIDs(pair.res.Out) {
			lev := kernel.Leveled{G: a.g, Level: a.g.LevelOf(id), Deepest: a.deepest}
			if why := wellFormed(lev, pair.res.Out[id], c.Flags.Reverse, pair.keep); why != "" {
				o.Failf([]string{"malformed"}, "tile matrix %d, keep=%v: %s; returned %v", id, pair.keep, why, pair.res.Out[id])
				return o
			}
		}
	}
	for _, id := range sortedIDs(off.Out) {
		withKeep, present := on.Out[id]
		base := off.Out[id]
		if !present || len(withKeep) < len(base) || !reflect.DeepEqual(withKeep[:len(base)], base) {
			o.Failf([]string{"keep-prefix"}, "tile matrix %d: with keep the result does not start with the polygons returned without keep: without %v, with %v", id, base, withKeep)
			return o
		}
		for _, pg := range withKeep[len(base):] {
			if len(pg) != 1 || len(pg[0]) < 1 || len(pg[0]) > 2 {
				o.Failf([]string{"keep-tail"}, "tile matrix %d: with keep, the extra polygon %v is not a single ring of 1 or 2 vertices", id, pg)
				return o
			}
		}
		if len(withKeep) > len(base) {
			o.NonTrivial = true
			o.Label("collapsed parts kept")
		}
	}
	// non-triviality: compare with the routed rings
	for _, id := range c.IDs {
		li := a.level(id)
		nr, nv := 0, 0
		for _, ch := range li.chains {
			if len(ch) >= 3 {
				nr++
				nv += len(ch)
			}
		}
		gr, gv := 0, 0
		for _, pg := range off.Out[id] {
			for _, rg := range pg {
				gr++
				gv += len(rg)
			}
		}
		if gr != nr || gv != nv {
			o.NonTrivial = true
			o.Label("split/dedup/collapse")
		}
		if _, ok := off.Out[id]; !ok {
			o.Label("tile matrix absent without keep")
		}
	}
	return o
}

func TestC05(t *testing.T) { report.Run(t, specC05, genC05, oracleC05) }
