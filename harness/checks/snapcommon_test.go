package checks

import (
	"fmt"
	"math/big"
	"runtime/debug"
	"sort"
	"strings"

	"github.com/go-spatial/geom"
	"github.com/pdok/texel/snap"
	"pgregory.net/rapid"

	"verifharness/gen"
	"verifharness/kernel"
	"verifharness/report"
)

type P = kernel.P

// SnapCase is the replayable input of every check that calls snap.SnapPolygon.
type SnapCase struct {
	Grid   gen.GridSpec     `json:"grid"`
	IDs    []int            `json:"ids"`
	Flags  gen.Flags        `json:"flags"`
	Poly   [][][2]float64   `json:"poly"`
	Shape  string           `json:"shape,omitempty"`
	Q      int64            `json:"q,omitempty"`
	Anchor string           `json:"anchor,omitempty"`
	Extra  map[string]int64 `json:"extra,omitempty"`
}

// SnapResult is what came back.
type SnapResult struct {
	Out   map[int][]geom.Polygon
	Panic any
	Stack string
}

func (c SnapCase) config() snap.Config {
	return snap.Config{KeepPointsAndLines: c.Flags.Keep, IgnoreOutsideGrid: c.Flags.Ignore, ReverseWindingOrder: c.Flags.Reverse}
}

// clonePoly protects the case against in place modification by the code under test.
func clonePoly(p [][][2]float64) geom.Polygon {
	o := make(geom.Polygon, len(p))
	for i, r := range p {
		if r == nil {
			continue
		}
		o[i] = make([][2]float64, len(r))
		copy(o[i], r)
	}
	return o
}

func snapWith(c SnapCase, poly [][][2]float64, ids []int, cfg snap.Config) (res SnapResult) {
	g := c.Grid.MustBuild()
	defer func() {
		if e := recover(); e != nil {
			res.Panic = e
			res.Stack = string(debug.Stack())
		}
	}()
	res.Out = snap.SnapPolygon(clonePoly(poly), g.TMS, append([]int{}, ids...), cfg)
	return res
}

func snapSafe(c SnapCase) SnapResult { return snapWith(c, c.Poly, c.IDs, c.config()) }

func panicText(r SnapResult) string {
	s := fmt.Sprint(r.Panic)
	if len(s) > 200 {
		s = s[:200]
	}
	// first texel frame
	for _, l := range strings.Split(r.Stack, "\n") {
		if strings.Contains(l, "github.com/pdok/texel/") && !strings.Contains(l, "verifharness") {
			return s + " @ " + strings.TrimSpace(l)
		}
	}
	return s
}

// analysis bundles the exact reading of a case.
type analysis struct {
	c       SnapCase
	g       *kernel.Grid
	fixed   [][]P
	deepest uint
	maxID   int
	valid   bool
	inside  bool
	perID   map[int]*levelInfo
}

type levelInfo struct {
	lev       kernel.Leveled
	chains    [][]P
	hot       kernel.PixSet
	maxVisits int
	maxAll    int
	ties      kernel.TieInfo
}

func analyse(c SnapCase) *analysis {
	a := &analysis{c: c, g: c.Grid.MustBuild(), perID: map[int]*levelInfo{}}
	a.fixed = gen.ReadBack(c.Poly)
	for _, id := range c.IDs {
		if id > a.maxID {
			a.maxID = id
		}
	}
	a.deepest = a.g.LevelOf(a.maxID)
	a.inside = true
	for _, r := range a.fixed {
		for _, p := range r {
			if !a.g.Inside(p, a.deepest) {
				a.inside = false
			}
		}
	}
	return a
}

func (a *analysis) checkValid() bool {
	a.valid = kernel.ValidPolygon(a.fixed)
	if a.valid {
		// the polygon is what the caller hands over: float64 ordinates. Ordinates that 1e-10 fixed point cannot hold exactly are
		// truncated in the harness' reading, and a ring whose float vertices are exactly collinear (a degenerate template turned
		// onto a diagonal) can come out of that with a sliver of area. Such a ring is not a valid ring: its area over the reals,
		// computed from the float ordinates with rational arithmetic, must be non-zero and have the sign of the fixed point area
		for i, r := range a.c.Poly {
			if len(r) < 3 || exactAreaSign(r) != kernel.Area2Sign(a.fixed[i]) {
				a.valid = false
				break
			}
		}
	}
	return a.valid
}

// exactAreaSign: sign of the shoelace sum of float64 vertices over the rationals.
func exactAreaSign(r [][2]float64) int {
	sum := new(big.Rat)
	x := make([]*big.Rat, len(r))
	y := make([]*big.Rat, len(r))
	for i, v := range r {
		x[i], y[i] = new(big.Rat).SetFloat64(v[0]), new(big.Rat).SetFloat64(v[1])
		if x[i] == nil || y[i] == nil {
			return 0
		}
	}
	t := new(big.Rat)
	for i := range r {
		j := (i + 1) % len(r)
		sum.Add(sum, t.Mul(x[i], y[j]))
		sum.Sub(sum, t.Mul(x[j], y[i]))
	}
	return sum.Sign()
}

func (a *analysis) level(id int) *levelInfo {
	if li, ok := a.perID[id]; ok {
		return li
	}
	li := &levelInfo{lev: kernel.Leveled{G: a.g, Level: a.g.LevelOf(id), Deepest: a.deepest}}
	li.chains, li.hot = li.lev.RoutedBoundary(a.fixed)
	li.maxVisits = kernel.MaxVisits(li.chains)
	li.maxAll = kernel.MaxVisitsAll(li.chains)
	li.ties = li.lev.Ties(a.fixed)
	a.perID[id] = li
	return li
}

func sortedIDs(m map[int][]geom.Polygon) []int {
	ids := make([]int, 0, len(m))
	for id := range m {
		ids = append(ids, id)
	}
	sort.Ints(ids)
	return ids
}

// outRing maps a returned ring to pixel indices.
func outRing(lev kernel.Leveled, r [][2]float64) []P {
	o := make([]P, len(r))
	for i, v := range r {
		o[i] = lev.OutPix(v)
	}
	return o
}

type pedge struct{ a, b P }

// outEdges collects the non degenerate edges of all rings of all polygons (pixel index space).
func outEdges(lev kernel.Leveled, polys []geom.Polygon) []pedge {
	var es []pedge
	for _, pg := range polys {
		for _, rg := range pg {
			pr := outRing(lev, rg)
			n := len(pr)
			if n < 2 {
				continue
			}
			for i := 0; i < n; i++ {
				a, b := pr[i], pr[(i+1)%n]
				if a != b {
					es = append(es, pedge{a, b})
				}
				if n == 2 {
					break
				}
			}
		}
	}
	return es
}

func visitsClass(v int) string {
	switch {
	case v <= 1:
		return "maxVisits=1"
	case v == 2:
		return "maxVisits=2"
	}
	return "maxVisits>=3"
}

// ---------------------------------------------------------------------------------------------------------------
// generation of valid polygons on a grid

type validOpts struct {
	collapseBias bool // prefer comb / zigzag / polyomino / slivers
	maxHoles     int
	maxVerts     int
}

// drawShape draws lattice rings (shell first) and the lattice resolution.
func drawShape(t *rapid.T, o validOpts) (rings [][]P, q int64, shape string) {
	q = rapid.SampledFrom([]int64{4, 4, 4, 4, 3, 7, 8}).Draw(t, "q")
	kinds := []string{"grow", "grow", "star", "comb", "zigzag", "polyomino", "polyomino-holes", "grow-holes", "star-holes", "annulus", "pinched", "nested"}
	if o.collapseBias {
		kinds = []string{"grow-thin", "comb", "comb", "zigzag", "polyomino", "polyomino-holes", "grow-holes", "comb-hole", "annulus", "pinched", "nested"}
	}
	if o.maxHoles < 2 {
		kinds = kinds[:len(kinds)-2] // (pinched and nested come with two holes and more)
	}
	if o.maxHoles < 1 {
		kinds = kinds[:len(kinds)-1]
	}
	shape = rapid.SampledFrom(kinds).Draw(t, "shape")
	maxV := o.maxVerts
	if maxV == 0 {
		maxV = report.Scale(40, 100)
	}
	smallHole := func(t *rapid.T, s int64) []P {
		if rapid.Bool().Draw(t, "holeStar") {
			return gen.Star(t, s+1, rapid.IntRange(3, 6).Draw(t, "hn"))
		}
		return gen.Grow(t, s, rapid.IntRange(3, 6).Draw(t, "hn"))
	}
	addHoles := func(w int64) {
		if o.maxHoles == 0 {
			return
		}
		nh := rapid.IntRange(1, o.maxHoles).Draw(t, "holes")
		for h := 0; h < nh; h++ {
			if hole := gen.HoleIn(t, rings, w, smallHole, 2*q); hole != nil {
				rings = append(rings, hole)
			}
		}
	}
	switch shape {
	case "grow", "grow-holes":
		w := rapid.Int64Range(1, 8).Draw(t, "wpx") * q
		rings = [][]P{gen.Grow(t, w, rapid.IntRange(3, maxV).Draw(t, "n"))}
		if shape == "grow-holes" {
			addHoles(w)
		}
	case "grow-thin":
		w := rapid.Int64Range(1, 4).Draw(t, "wpx") * q
		rings = [][]P{gen.Grow(t, w, rapid.IntRange(6, maxV).Draw(t, "n"))}
	case "star", "star-holes":
		w := rapid.Int64Range(2, 10).Draw(t, "wpx") * q
		rings = [][]P{gen.Star(t, w, rapid.IntRange(3, min(maxV, 24)).Draw(t, "n"))}
		if shape == "star-holes" {
			addHoles(w)
		}
	case "comb", "comb-hole":
		r, w := gen.Comb(t, q)
		rings = [][]P{r}
		if shape == "comb-hole" {
			addHoles(w)
		}
	case "zigzag":
		r, _ := gen.ZigZag(t, q)
		rings = [][]P{r}
	case "nested":
		rings = gen.Nested(t, q)
	case "pinched":
		rings = gen.Pinched(t, q)
		if len(rings) > 1+max(o.maxHoles, 0) {
			rings = rings[:1+max(o.maxHoles, 0)]
		}
	case "annulus":
		rings = gen.Annulus(t, q)
	case "polyomino", "polyomino-holes":
		cell := rapid.Int64Range(1, q+2).Draw(t, "cell")
		nx, ny := rapid.IntRange(1, 7).Draw(t, "nx"), rapid.IntRange(1, 7).Draw(t, "ny")
		if shape == "polyomino-holes" {
			nx, ny = rapid.IntRange(3, 7).Draw(t, "nx"), rapid.IntRange(3, 7).Draw(t, "ny")
		}
		loops := gen.Polyomino(t, nx, ny, cell, shape == "polyomino-holes", rapid.Bool().Draw(t, "keepCollinear"))
		rings = loops
		if o.maxHoles >= 0 && len(rings) > 1+max(o.maxHoles, 0) {
			rings = rings[:1+max(o.maxHoles, 0)]
		}
	}
	return rings, q, shape
}

// placeShape shifts the lattice rings to the origin of the lattice, draws an anchor in the grid of the focus level and
// converts to floats. ok is false if the shape does not fit in the grid.
func placeShape(t *rapid.T, g *kernel.Grid, ids []int, rings [][]P, q int64) (poly [][][2]float64, anchor string, ok bool) {
	if len(rings) == 0 || len(rings[0]) == 0 {
		return nil, "", false
	}
	maxID := 0
	for _, id := range ids {
		maxID = max(maxID, id)
	}
	focus := ids[rapid.IntRange(0, len(ids)-1).Draw(t, "focus")]
	lev := kernel.Leveled{G: g, Level: g.LevelOf(focus), Deepest: g.LevelOf(maxID)}
	// the templates are axis parallel or grow to the right; a lattice preserving map turns them: transposed, mirrored, or rotated
	// by 45 degrees ((u,v) -> (u-v, u+v): every edge of a rectilinear template becomes a diagonal through pixel corners)
	if tr := rapid.SampledFrom([]string{"", "", "", "", "", "rot45", "rot45", "transpose", "mirror", "rot45-mirror"}).Draw(t, "turn"); tr != "" {
		turned := make([][]P, len(rings))
		for i, r := range rings {
			turned[i] = make([]P, len(r))
			for j, p := range r {
				switch tr {
				case "rot45":
					turned[i][j] = P{X: p.X - p.Y, Y: p.X + p.Y}
				case "rot45-mirror":
					turned[i][j] = P{X: p.Y - p.X, Y: p.X + p.Y}
				case "transpose":
					turned[i][j] = P{X: p.Y, Y: p.X}
				default:
					turned[i][j] = P{X: -p.X, Y: p.Y}
				}
			}
		}
		rings = turned
	}
	minX, minY, maxX, maxY := rings[0][0].X, rings[0][0].Y, rings[0][0].X, rings[0][0].Y
	for _, r := range rings {
		for _, p := range r {
			minX, minY, maxX, maxY = min(minX, p.X), min(minY, p.Y), max(maxX, p.X), max(maxY, p.Y)
		}
	}
	shifted := make([][]P, len(rings))
	for i, r := range rings {
		rr := make([]P, len(r))
		for j, p := range r {
			rr[j] = P{X: p.X - minX, Y: p.Y - minY}
		}
		// random direction and start vertex: the tool normalises
		if rapid.Bool().Draw(t, "reverseRing") {
			rr = kernel.Reversed(rr)
		}
		if len(rr) > 0 {
			k := rapid.IntRange(0, len(rr)-1).Draw(t, "rotate")
			rr = append(append([]P{}, rr[k:]...), rr[:k]...)
		}
		shifted[i] = rr
	}
	wpx := max(maxX-minX, maxY-minY)/q + 2
	size := int64(1) << lev.Level
	if wpx > size {
		return nil, "", false
	}
	an, cls := gen.Anchor(t, size, wpx)
	pl := gen.Placement{L: lev, Q: q, Anchor: an}
	if rapid.IntRange(0, 3).Draw(t, "subOffset") == 0 {
		s := lev.Span() / q
		if s > 1 {
			pl.Off = P{X: rapid.Int64Range(0, s-1).Draw(t, "offx"), Y: rapid.Int64Range(0, s-1).Draw(t, "offy")}
			cls += "+off"
		}
	}
	poly, _ = pl.Floats(shifted)
	return poly, cls, true
}

// drawValidCase draws a complete case with a polygon that is valid by construction (the oracle re-checks exactly).
func drawValidCase(t *rapid.T, o validOpts, grid func(*rapid.T) gen.GridSpec, maxIDs int) SnapCase {
	c := SnapCase{Grid: grid(t)}
	g := c.Grid.MustBuild()
	c.IDs = gen.IDs(t, g, maxIDs, maxAddressableID(g))
	c.Flags = gen.DrawFlags(t)
	c.Flags.Ignore = false
	rings, q, shape := drawShape(t, o)
	c.Q, c.Shape = q, shape
	poly, anchor, ok := placeShape(t, g, c.IDs, rings, q)
	if ok {
		c.Poly, c.Anchor = poly, anchor
	} else {
		c.Shape += "/unplaced"
	}
	return c
}

// scopeValid decides the common precondition of the properties over valid polygons.
func scopeValid(a *analysis, o *report.Outcome) bool {
	o.Label("grid=%s", gridClass(a.c.Grid))
	o.Label("shape=%s", a.c.Shape)
	if len(a.c.Poly) == 0 {
		o.OutOfScope = true
		o.Label("no polygon (shape did not fit the grid)")
		return false
	}
	if !a.inside {
		// inside the extent but beyond the last pixel the tool can address (grids whose extent does not divide evenly): the tool
		// refuses such a vertex as outside its grid, and the case ends as "snapping panicked". If it ever returns a result for it,
		// the properties over valid polygons apply to that result
		for _, r := range a.fixed {
			for _, p := range r {
				if !a.g.InsideExtent(p) {
					o.OutOfScope = true
					o.Label("vertex outside the grid")
					return false
				}
			}
		}
		o.Label("vertex in the strip between the last pixel and the border of the extent")
	}
	if !a.checkValid() {
		o.OutOfScope = true
		o.Label("not valid after fixed point reading")
		return false
	}
	return true
}

// maxAddressableID is the deepest tile matrix whose pixel addresses still fit the 32 bit Z-order halves (level <= 32).
// Deeper ones make snapping panic with "cannot make Z" (known finding F10, decided by C06).
func maxAddressableID(g *kernel.Grid) int { return 32 - int(g.LevelDiff) }

func gridClass(s gen.GridSpec) string {
	if s.Kind == "builtin" {
		return s.Name
	}
	if s.Kind == "derived" {
		return "derived:" + s.String()
	}
	if s.OX == 0 && s.OY == 0 {
		return "synthetic-origin0"
	}
	return "synthetic-origin!=0"
}
