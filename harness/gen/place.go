package gen

import (
	"math"

	"pgregory.net/rapid"

	"verifharness/kernel"
)

// ExactFloat returns a float that the tool reads back as the fixed point value f (if one exists nearby).
func ExactFloat(f int64) (float64, bool) {
	x := kernel.FromFixed(f)
	if kernel.ToFixed(x) == f {
		return x, true
	}
	up, dn := x, x
	for i := 0; i < 4; i++ {
		up = math.Nextafter(up, math.Inf(1))
		if kernel.ToFixed(up) == f {
			return up, true
		}
		dn = math.Nextafter(dn, math.Inf(-1))
		if kernel.ToFixed(dn) == f {
			return dn, true
		}
	}
	return x, false
}

// Placement maps lattice points (q steps per pixel of level L) to coordinates: lattice (0,0) is the lower left corner
// of pixel Anchor, shifted by Off fixed point units.
type Placement struct {
	L      kernel.Leveled
	Q      int64
	Anchor P
	Off    P
}

func (pl Placement) Fixed(u P) P {
	s := pl.L.Span()
	return P{pl.L.G.MinX + pl.Anchor.X*s + floorDivMul(u.X, s, pl.Q) + pl.Off.X, pl.L.G.MinY + pl.Anchor.Y*s + floorDivMul(u.Y, s, pl.Q) + pl.Off.Y}
}

// floorDivMul = floor(u*s/q) without overflow for the magnitudes used here (u < 2^20, s < 2^62/2^20 is not guaranteed, so split)
func floorDivMul(u, s, q int64) int64 {
	// u*s/q = u*(s/q) + u*(s%q)/q
	r := u * (s / q)
	m := u * (s % q)
	d := m / q
	if m%q != 0 && (m < 0) != (q < 0) {
		d--
	}
	return r + d
}

// Floats converts lattice rings to float rings and reports how many ordinates could not be hit exactly.
func (pl Placement) Floats(rings [][]P) (poly [][][2]float64, inexact int) {
	for _, r := range rings {
		fr := make([][2]float64, len(r))
		for i, u := range r {
			f := pl.Fixed(u)
			x, okx := ExactFloat(f.X)
			y, oky := ExactFloat(f.Y)
			if !okx {
				inexact++
			}
			if !oky {
				inexact++
			}
			fr[i] = [2]float64{x, y}
		}
		poly = append(poly, fr)
	}
	return poly, inexact
}

// ReadBack gives the tool's fixed point reading of a float polygon.
func ReadBack(poly [][][2]float64) [][]P {
	out := make([][]P, len(poly))
	for i, r := range poly {
		out[i] = make([]P, len(r))
		for j, v := range r {
			out[i][j] = P{kernel.ToFixed(v[0]), kernel.ToFixed(v[1])}
		}
	}
	return out
}

// Anchor draws the pixel index of the window's lower left corner such that a window of wpx pixels fits in a grid of
// size pixels: at the origin corner, at the far corner, straddling the root split, straddling a deeper split, anywhere.
func Anchor(t *rapid.T, size, wpx int64) (P, string) {
	if wpx >= size {
		return P{0, 0}, "whole-grid"
	}
	one := func(label string) (int64, string) {
		hi := size - wpx
		switch rapid.IntRange(0, 5).Draw(t, label+"Class") {
		case 0:
			return 0, "origin"
		case 1:
			return hi, "far"
		case 2:
			return clamp(size/2-rapid.Int64Range(0, wpx).Draw(t, label+"r"), 0, hi), "root-split"
		case 3:
			k := rapid.Int64Range(0, 7).Draw(t, label+"k") // straddle a split of a deeper level
			step := max(size>>uint(min(k+1, 30)), 1)
			m := rapid.Int64Range(0, max(size/step-1, 0)).Draw(t, label+"m")
			return clamp(m*step-rapid.Int64Range(0, wpx).Draw(t, label+"r"), 0, hi), "deep-split"
		default:
			return rapid.Int64Range(0, hi).Draw(t, label+"any"), "any"
		}
	}
	x, cx := one("ax")
	y, cy := one("ay")
	return P{x, y}, cx + "/" + cy
}

func clamp(v, lo, hi int64) int64 {
	if v < lo {
		return lo
	}
	if v > hi {
		return hi
	}
	return v
}
