// Package gen holds the rapid generators: grids, valid polygons by construction, arbitrary polygons.
package gen

import (
	"fmt"
	"math"
	"strconv"
	"sync"

	"github.com/pdok/texel/tms20"
	"pgregory.net/rapid"

	"verifharness/kernel"
)

// GridSpec describes a grid in a replayable way.
type GridSpec struct {
	Kind string `json:"kind"`           // "synthetic" or "builtin"
	Name string `json:"name,omitempty"` // builtin id
	// synthetic dyadic grid: tile matrices 0..NTM-1, pixel size 2^PxLog2 at the deepest one,
	// extent with lower left corner (OX, OY), tile width 2^TWLog2, corner of origin top left or bottom left.
	NTM     int     `json:"ntm,omitempty"`
	PxLog2  int     `json:"pxlog2,omitempty"`
	OX      float64 `json:"ox,omitempty"`
	OY      float64 `json:"oy,omitempty"`
	TWLog2  int     `json:"twlog2,omitempty"`
	TopLeft bool    `json:"topleft,omitempty"`
	// derived: the built-in set Name with every cell size multiplied by Factor (e.g. 0.5: the quarter at the point of origin),
	// made by copying the TileMatrix structs in Go, so it shares the PointOfOrigin pointers with the built-in set
	Factor float64 `json:"factor,omitempty"`
}

func (s GridSpec) String() string {
	if s.Kind == "builtin" {
		return s.Name
	}
	if s.Kind == "derived" {
		return fmt.Sprintf("%s*%v", s.Name, s.Factor)
	}
	return fmt.Sprintf("syn(ntm=%d,px=2^%d,o=%v/%v,tw=2^%d,tl=%v)", s.NTM, s.PxLog2, s.OX, s.OY, s.TWLog2, s.TopLeft)
}

// crs84 is a CRS that reports OGC:1.3:CRS84, i.e. x,y order, so that tms20.ToXYPoint never takes its orderedAxes fallback.
type crs84 struct{}

func (crs84) Description() string { return "" }
func (crs84) Authority() string   { return "OGC" }
func (crs84) Version() string     { return "1.3" }
func (crs84) Code() string        { return "CRS84" }

// SyntheticTMS builds the tile matrix set of a synthetic spec.
func SyntheticTMS(s GridSpec) tms20.TileMatrixSet {
	tw := uint(1) << uint(s.TWLog2)
	tms := tms20.TileMatrixSet{ID: "synthetic", CRS: crs84{}, OrderedAxes: []string{"Lon", "Lat"}, TileMatrices: map[int]tms20.TileMatrix{}}
	pxDeepest := math.Ldexp(1, s.PxLog2)
	span := pxDeepest * float64(uint(1)<<uint(s.NTM-1)) * float64(tw) * 16
	for id := 0; id < s.NTM; id++ {
		px := pxDeepest * float64(uint(1)<<uint(s.NTM-1-id))
		cs := px * 16
		o := tms20.TwoDPoint{s.OX, s.OY}
		corner := tms20.BottomLeft
		if s.TopLeft {
			o = tms20.TwoDPoint{s.OX, s.OY + span}
			corner = tms20.TopLeft
		}
		tms.TileMatrices[id] = tms20.TileMatrix{ID: strconv.Itoa(id), ScaleDenominator: cs / 0.00028, CellSize: cs, CornerOfOrigin: corner,
			PointOfOrigin: &o, TileWidth: tw, TileHeight: tw, MatrixWidth: uint(1) << uint(id), MatrixHeight: uint(1) << uint(id)}
	}
	return tms
}

var (
	gridCache   = map[string]*kernel.Grid{}
	gridCacheMu sync.Mutex
)

// Build returns the grid model (cached).
func (s GridSpec) Build() (*kernel.Grid, error) {
	key := s.String()
	gridCacheMu.Lock()
	defer gridCacheMu.Unlock()
	if g, ok := gridCache[key]; ok {
		return g, nil
	}
	var tms tms20.TileMatrixSet
	var err error
	if s.Kind == "builtin" {
		tms, err = tms20.LoadEmbeddedTileMatrixSet(s.Name)
		if err != nil {
			return nil, err
		}
	} else if s.Kind == "derived" {
		base, err := tms20.LoadEmbeddedTileMatrixSet(s.Name)
		if err != nil {
			return nil, err
		}
		tms = base
		tms.TileMatrices = make(map[int]tms20.TileMatrix, len(base.TileMatrices))
		for id, tm := range base.TileMatrices { // struct copies: the PointOfOrigin pointers are shared with the built-in set
			tm.CellSize *= s.Factor
			tm.ScaleDenominator *= s.Factor
			tms.TileMatrices[id] = tm
		}
	} else {
		tms = SyntheticTMS(s)
	}
	g, err := kernel.NewGrid(key, tms)
	if err != nil {
		return nil, err
	}
	gridCache[key] = g
	return g, nil
}

// MustBuild panics on error (harness defect, not a property failure).
func (s GridSpec) MustBuild() *kernel.Grid {
	g, err := s.Build()
	if err != nil {
		panic(fmt.Errorf("harness: cannot build grid %v: %w", s, err))
	}
	return g
}

// Synthetic draws a synthetic dyadic grid.
func Synthetic(t *rapid.T) GridSpec {
	s := GridSpec{Kind: "synthetic"}
	s.NTM = rapid.IntRange(1, 4).Draw(t, "ntm")
	s.PxLog2 = rapid.IntRange(-6, 3).Draw(t, "pxlog2")
	s.TWLog2 = rapid.SampledFrom([]int{0, 0, 1, 2}).Draw(t, "twlog2")
	s.TopLeft = rapid.Bool().Draw(t, "topleft")
	px := math.Ldexp(1, s.PxLog2)
	switch rapid.IntRange(0, 3).Draw(t, "originKind") {
	case 0:
	case 1: // pixel aligned, non zero, x != y, negative included
		s.OX = px * float64(rapid.IntRange(-4000, 4000).Draw(t, "ox"))
		s.OY = px * float64(rapid.IntRange(-4000, 4000).Draw(t, "oy"))
	case 2: // not pixel aligned (quarter pixels)
		s.OX = px / 4 * float64(rapid.IntRange(-4000, 4000).Draw(t, "ox"))
		s.OY = px / 4 * float64(rapid.IntRange(-4000, 4000).Draw(t, "oy"))
	case 3: // far away
		s.OX = px * float64(rapid.IntRange(-1<<24, 1<<24).Draw(t, "ox"))
		s.OY = px * float64(rapid.IntRange(-1<<24, 1<<24).Draw(t, "oy"))
	}
	return s
}

// Builtin names used where real grids are wanted.
var (
	RD          = GridSpec{Kind: "builtin", Name: "NetherlandsRDNewQuad"}
	WebMercator = GridSpec{Kind: "builtin", Name: "WebMercatorQuad"}
	AllBuiltin  = []string{"CDB1GlobalGrid", "CanadianNAD83_LCC", "EuropeanETRS89_LAEAQuad", "GNOSISGlobalGrid", "LINZAntarticaMapTilegrid",
		"NZTM2000Quad", "NetherlandsRDNewQuad", "UPSAntarcticWGS84Quad", "UPSArcticWGS84Quad", "UTM31WGS84Quad", "WGS1984Quad",
		"WebMercatorQuad", "WorldCRS84Quad", "WorldMercatorWGS84Quad"}
)

// AnyGrid draws a synthetic grid (most of the time), NetherlandsRDNewQuad or WebMercatorQuad.
func AnyGrid(t *rapid.T) GridSpec {
	switch rapid.IntRange(0, 9).Draw(t, "gridKind") {
	case 0, 1:
		return RD
	case 2:
		return WebMercator
	default:
		return Synthetic(t)
	}
}

// IDs draws a non empty list of distinct tile matrix ids of the grid, in any order, at most maxN of them,
// none deeper than maxID.
func IDs(t *rapid.T, g *kernel.Grid, maxN int, maxID int) []int {
	top := g.MaxID()
	if maxID < top {
		top = maxID
	}
	n := rapid.IntRange(1, min(maxN, top+1)).Draw(t, "nIDs")
	seen := map[int]bool{}
	var ids []int
	// one case in four starts from the deepest tile matrices: pixels of millimetres at ordinates of 1e5..2e7 are where
	// floating point helpers of the tool lose their precision (finding F16), and rapid's ranges favour small values
	deep := rapid.IntRange(0, 3).Draw(t, "deepIDs") == 2
	for len(ids) < n {
		id := rapid.IntRange(0, top).Draw(t, "id")
		if deep && len(ids) == 0 {
			id = top - id%min(4, top+1)
		}
		for seen[id] { // construction, not rejection: take the next free one
			id = (id + 1) % (top + 1)
		}
		seen[id] = true
		ids = append(ids, id)
	}
	return ids
}

// Config flags.
type Flags struct {
	Keep    bool `json:"keep"`
	Ignore  bool `json:"ignore"`
	Reverse bool `json:"reverse"`
}

func DrawFlags(t *rapid.T) Flags {
	return Flags{Keep: rapid.Bool().Draw(t, "keep"), Reverse: rapid.Bool().Draw(t, "reverse"), Ignore: rapid.Bool().Draw(t, "ignore")}
}

// AnyGridWide adds grids with fixed point magnitudes above 2^53 and lat/lon axis order.
func AnyGridWide(t *rapid.T) GridSpec {
	switch rapid.IntRange(0, 19).Draw(t, "gridKind") {
	case 0, 1, 2:
		return RD
	case 3, 4, 5:
		return WebMercator
	case 6:
		return GridSpec{Kind: "builtin", Name: "UPSArcticWGS84Quad"}
	case 7:
		return GridSpec{Kind: "builtin", Name: "EuropeanETRS89_LAEAQuad"}
	default:
		return Synthetic(t)
	}
}
