package gen

import (
	"math"
	"sort"

	"pgregory.net/rapid"

	"verifharness/kernel"
)

type P = kernel.P

// ---------------------------------------------------------------------------------------------------------------
// Shapes in lattice units. All shapes live in [0, W]^2 (W in lattice units).

// Grow: edge-split growth. Start from a lattice triangle, repeatedly split a random edge at a new lattice point that
// keeps the ring simple; one third of the points are drawn within two lattice steps of an existing vertex (thin features).
func Grow(t *rapid.T, w int64, n int) []P {
	pt := func(label string) P {
		return P{rapid.Int64Range(0, w).Draw(t, label+"x"), rapid.Int64Range(0, w).Draw(t, label+"y")}
	}
	var ring []P
	for try := 0; ; try++ {
		ring = []P{pt("a"), pt("b"), pt("c")}
		if kernel.RingSimple(ring) {
			break
		}
		if try > 20 {
			ring = []P{{0, 0}, {w, 0}, {0, w}}
			break
		}
	}
	tries := 0
	for len(ring) < n && tries < 6*n {
		tries++
		i := rapid.IntRange(0, len(ring)-1).Draw(t, "edge")
		var p P
		if rapid.IntRange(0, 2).Draw(t, "near") == 0 {
			m := ring[i]
			p = P{m.X + rapid.Int64Range(-2, 2).Draw(t, "dx"), m.Y + rapid.Int64Range(-2, 2).Draw(t, "dy")}
		} else {
			p = pt("p")
		}
		if p.X < 0 || p.X > w || p.Y < 0 || p.Y > w {
			continue
		}
		nr := make([]P, 0, len(ring)+1)
		nr = append(nr, ring[:i+1]...)
		nr = append(nr, p)
		nr = append(nr, ring[i+1:]...)
		if splitKeepsSimple(ring, i, p) {
			ring = nr
		}
	}
	return ring
}

// splitKeepsSimple: inserting p between ring[i] and ring[i+1] of a simple ring keeps it simple.
func splitKeepsSimple(ring []P, i int, p P) bool {
	n := len(ring)
	a, b := ring[i], ring[(i+1)%n]
	if p == a || p == b || kernel.Orient(a, b, p) == 0 {
		return false // on the edge's line: either on the edge (collinear vertex, fine but useless) or folding back
	}
	for j := 0; j < n; j++ {
		if j == i {
			continue
		}
		c, d := ring[j], ring[(j+1)%n]
		// new edges a-p and p-b against c-d
		if d == a { // previous edge shares a
			if kernel.SegsIntersect(p, b, c, d) || kernel.OnSeg(c, d, p) || kernel.OnSeg(a, p, c) {
				return false
			}
			continue
		}
		if c == b { // next edge shares b
			if kernel.SegsIntersect(a, p, c, d) || kernel.OnSeg(c, d, p) || kernel.OnSeg(p, b, d) {
				return false
			}
			continue
		}
		if kernel.SegsIntersect(a, p, c, d) || kernel.SegsIntersect(p, b, c, d) {
			return false
		}
	}
	return true
}

// Star: star shaped ring around the centre of the window: sorted distinct angles with all gaps < pi, random radii.
func Star(t *rapid.T, w int64, n int) []P {
	c := float64(w) / 2
	angs := make([]float64, 0, n)
	base := rapid.Float64Range(0, 2*math.Pi).Draw(t, "base")
	for i := 0; i < n; i++ {
		// stratified, so that every gap stays below pi
		a := base + (float64(i)+rapid.Float64Range(0.05, 0.95).Draw(t, "ang"))*2*math.Pi/float64(n)
		angs = append(angs, a)
	}
	sort.Float64s(angs)
	ring := make([]P, 0, n)
	for _, a := range angs {
		r := rapid.Float64Range(0.08, 1).Draw(t, "rad") * c
		p := P{int64(math.Round(c + r*math.Cos(a))), int64(math.Round(c + r*math.Sin(a)))}
		if len(ring) > 0 && ring[len(ring)-1] == p {
			continue
		}
		ring = append(ring, p)
	}
	return ring
}

// Comb: rectilinear comb with generated tooth width, gap, height, optional shear; these drive the routed chain
// to visit pixels twice and more on purpose.
func Comb(t *rapid.T, q int64) (ring []P, w int64) {
	teeth := rapid.IntRange(1, 6).Draw(t, "teeth")
	tw := rapid.Int64Range(1, 2*q).Draw(t, "toothWidth")
	gap := rapid.Int64Range(1, 2*q).Draw(t, "gap")
	th := rapid.Int64Range(1, 4*q).Draw(t, "toothHeight")
	bh := rapid.Int64Range(1, 2*q).Draw(t, "baseHeight")
	ox := rapid.Int64Range(0, q).Draw(t, "ox") + 4*q
	oy := rapid.Int64Range(0, q).Draw(t, "oy")
	total := int64(teeth)*tw + int64(teeth-1)*gap
	ring = append(ring, P{ox, oy}, P{ox + total, oy})
	cx := ox + total
	for k := 0; k < teeth; k++ {
		h := th
		if rapid.IntRange(0, 2).Draw(t, "varyHeight") == 0 {
			h = rapid.Int64Range(1, 4*q).Draw(t, "h")
		}
		ring = append(ring, P{cx, oy + bh + h}, P{cx - tw, oy + bh + h})
		cx -= tw
		if k < teeth-1 {
			ring = append(ring, P{cx, oy + bh}, P{cx - gap, oy + bh})
			cx -= gap
		}
	}
	if s := rapid.Int64Range(-1, 1).Draw(t, "shear"); s != 0 {
		for i := range ring {
			ring[i].X += s * (ring[i].Y - oy) / 2
		}
	}
	var maxc int64
	for _, p := range ring {
		maxc = max(maxc, p.X, p.Y)
	}
	return ring, maxc + 1
}

// ZigZag: a band that zig-zags with pitch below, at or above one pixel.
func ZigZag(t *rapid.T, q int64) (ring []P, w int64) {
	n := rapid.IntRange(2, 8).Draw(t, "zigs")
	pitch := rapid.Int64Range(1, 2*q).Draw(t, "pitch")
	amp := rapid.Int64Range(1, 3*q).Draw(t, "amp")
	thick := rapid.Int64Range(1, q).Draw(t, "thick")
	ox := rapid.Int64Range(0, q).Draw(t, "ox")
	oy := rapid.Int64Range(0, q).Draw(t, "oy")
	var lower, upper []P
	for i := 0; i <= n; i++ {
		y := oy
		if i%2 == 1 {
			y += amp
		}
		lower = append(lower, P{ox + int64(i)*pitch, y})
		upper = append(upper, P{ox + int64(i)*pitch, y + thick})
	}
	ring = append(ring, lower...)
	for i := len(upper) - 1; i >= 0; i-- {
		ring = append(ring, upper[i])
	}
	var maxc int64
	for _, p := range ring {
		maxc = max(maxc, p.X, p.Y)
	}
	return ring, maxc + 1
}

// Polyomino: outline(s) of a random 4-connected set of cells of size cell (lattice units) in an nx*ny board.
// Returns the boundary loops: loops[0] is the outer boundary; further loops are holes. Pinch points (two cells touching
// only diagonally) are avoided by construction: a cell is only added/removed if no 2x2 block becomes a diagonal pair.
// If keepCollinear is false, collinear vertices are dropped.
func Polyomino(t *rapid.T, nx, ny int, cell int64, wantHoles bool, keepCollinear bool) [][]P {
	occ := make([][]bool, nx)
	for i := range occ {
		occ[i] = make([]bool, ny)
	}
	at := func(i, j int) bool { return i >= 0 && j >= 0 && i < nx && j < ny && occ[i][j] }
	diagOK := func() bool {
		for i := -1; i < nx; i++ {
			for j := -1; j < ny; j++ {
				a, b, c, d := at(i, j), at(i+1, j), at(i, j+1), at(i+1, j+1)
				if (a && d && !b && !c) || (b && c && !a && !d) {
					return false
				}
			}
		}
		return true
	}
	si, sj := rapid.IntRange(0, nx-1).Draw(t, "si"), rapid.IntRange(0, ny-1).Draw(t, "sj")
	occ[si][sj] = true
	cells := [][2]int{{si, sj}}
	target := rapid.IntRange(1, nx*ny*3/4+1).Draw(t, "cells")
	for tries := 0; len(cells) < target && tries < 4*target; tries++ {
		c := cells[rapid.IntRange(0, len(cells)-1).Draw(t, "from")]
		d := [][2]int{{1, 0}, {-1, 0}, {0, 1}, {0, -1}}[rapid.IntRange(0, 3).Draw(t, "dir")]
		i, j := c[0]+d[0], c[1]+d[1]
		if i < 0 || j < 0 || i >= nx || j >= ny || occ[i][j] {
			continue
		}
		occ[i][j] = true
		if !diagOK() {
			occ[i][j] = false
			continue
		}
		cells = append(cells, [2]int{i, j})
	}
	if wantHoles {
		// remove interior cells (all 8 neighbours occupied) to make holes
		for k := 0; k < 3; k++ {
			i, j := rapid.IntRange(0, nx-1).Draw(t, "hi"), rapid.IntRange(0, ny-1).Draw(t, "hj")
			interior := true
			for di := -1; di <= 1; di++ {
				for dj := -1; dj <= 1; dj++ {
					if !at(i+di, j+dj) {
						interior = false
					}
				}
			}
			if !interior {
				continue
			}
			occ[i][j] = false
			if !diagOK() {
				occ[i][j] = true
			}
		}
	}
	// directed boundary edges with the occupied cell on the left
	next := map[P][]P{}
	addE := func(a, b P) { next[a] = append(next[a], b) }
	for i := 0; i < nx; i++ {
		for j := 0; j < ny; j++ {
			if !occ[i][j] {
				continue
			}
			x0, y0, x1, y1 := int64(i)*cell, int64(j)*cell, int64(i+1)*cell, int64(j+1)*cell
			if !at(i, j-1) {
				addE(P{x0, y0}, P{x1, y0})
			}
			if !at(i+1, j) {
				addE(P{x1, y0}, P{x1, y1})
			}
			if !at(i, j+1) {
				addE(P{x1, y1}, P{x0, y1})
			}
			if !at(i-1, j) {
				addE(P{x0, y1}, P{x0, y0})
			}
		}
	}
	var starts []P
	for a := range next {
		starts = append(starts, a)
	}
	sort.Slice(starts, func(i, j int) bool {
		if starts[i].X != starts[j].X {
			return starts[i].X < starts[j].X
		}
		return starts[i].Y < starts[j].Y
	})
	used := map[[2]P]bool{}
	var loops [][]P
	for _, s := range starts {
		for _, e := range next[s] {
			if used[[2]P{s, e}] {
				continue
			}
			loop := []P{s}
			used[[2]P{s, e}] = true
			cur := e
			for cur != s {
				loop = append(loop, cur)
				nx := next[cur]
				if len(nx) != 1 { // no pinch points by construction
					return nil
				}
				used[[2]P{cur, nx[0]}] = true
				cur = nx[0]
			}
			loops = append(loops, loop)
		}
	}
	for k, l := range loops {
		if !keepCollinear {
			loops[k] = DropCollinear(l)
		}
	}
	// outer loop first (largest absolute area)
	sort.SliceStable(loops, func(i, j int) bool {
		return new(bigAbs).set(loops[i]).cmp(new(bigAbs).set(loops[j])) > 0
	})
	return loops
}

type bigAbs struct{ v float64 }

func (b *bigAbs) set(r []P) *bigAbs {
	f, _ := kernel.Area2(r).Float64()
	b.v = math.Abs(f)
	return b
}
func (b *bigAbs) cmp(o *bigAbs) int {
	switch {
	case b.v < o.v:
		return -1
	case b.v > o.v:
		return 1
	}
	return 0
}

// DropCollinear removes vertices that lie on the straight line between their neighbours.
func DropCollinear(r []P) []P {
	var out []P
	n := len(r)
	for i := range r {
		if kernel.Orient(r[(i+n-1)%n], r[i], r[(i+1)%n]) != 0 {
			out = append(out, r[i])
		}
	}
	return out
}

// HoleIn places a small ring (drawn by mk in a window of side s) strictly inside shell, disjoint from the other rings.
// Returns nil if no placement was found in a few tries.
func HoleIn(t *rapid.T, rings [][]P, w int64, mk func(t *rapid.T, s int64) []P, maxSide int64) []P {
	shell := rings[0]
	for try := 0; try < 8; try++ {
		s := rapid.Int64Range(1, maxSide).Draw(t, "holeSide")
		// anchor at a vertex of the shell, pushed inwards a little, or anywhere
		var off P
		if rapid.Bool().Draw(t, "hug") {
			v := shell[rapid.IntRange(0, len(shell)-1).Draw(t, "hugVertex")]
			off = P{v.X + rapid.Int64Range(-s-2, 2).Draw(t, "hx"), v.Y + rapid.Int64Range(-s-2, 2).Draw(t, "hy")}
		} else {
			off = P{rapid.Int64Range(0, w).Draw(t, "hx"), rapid.Int64Range(0, w).Draw(t, "hy")}
		}
		hole := mk(t, s)
		if len(hole) < 3 {
			continue
		}
		for i := range hole {
			hole[i] = P{hole[i].X + off.X, hole[i].Y + off.Y}
		}
		if !kernel.RingSimple(hole) {
			continue
		}
		ok := kernel.RingsDisjoint(hole, shell)
		for _, p := range hole {
			if !ok {
				break
			}
			if kernel.PointInRing(p, shell) != 1 {
				ok = false
			}
		}
		for _, o := range rings[1:] {
			if !ok {
				break
			}
			if !kernel.RingsDisjoint(hole, o) || kernel.PointInRing(hole[0], o) >= 0 || kernel.PointInRing(o[0], hole) >= 0 {
				ok = false
			}
		}
		if ok {
			return hole
		}
	}
	return nil
}

// ---------------------------------------------------------------------------------------------------------------
// Arbitrary rings (valid or not)

// Scribble draws a ring of n vertices from a small pool of lattice positions: repetition, spikes, zig-zags.
func Scribble(t *rapid.T, w int64, n int, pool int) []P {
	ps := make([]P, pool)
	for i := range ps {
		ps[i] = P{rapid.Int64Range(0, w).Draw(t, "px"), rapid.Int64Range(0, w).Draw(t, "py")}
	}
	ring := make([]P, n)
	for i := range ring {
		ring[i] = ps[rapid.IntRange(0, pool-1).Draw(t, "pick")]
	}
	return ring
}

// Word draws a sequence over an alphabet of k symbols with a grammar of walk / back-track / repeat / reverse / zig-zag
// (nested), used as a sequence of pixel centres.
func Word(t *rapid.T, k int, maxLen int) []int {
	var w []int
	steps := rapid.IntRange(1, 12).Draw(t, "steps")
	for s := 0; s < steps && len(w) < maxLen; s++ {
		switch rapid.IntRange(0, 5).Draw(t, "op") {
		case 0, 1: // walk
			n := rapid.IntRange(1, 5).Draw(t, "n")
			for i := 0; i < n; i++ {
				w = append(w, rapid.IntRange(0, k-1).Draw(t, "sym"))
			}
		case 2: // back-track the last m symbols
			m := rapid.IntRange(1, 6).Draw(t, "m")
			l := len(w)
			for i := 2; i <= m+1 && l-i >= 0; i++ {
				w = append(w, w[l-i])
			}
		case 3: // repeat the last segment of m symbols r times, forwards or reversed (periodic runs in both directions)
			m := rapid.IntRange(1, 4).Draw(t, "m")
			r := rapid.IntRange(1, 8).Draw(t, "r")
			if m > len(w) {
				m = len(w)
			}
			seg := append([]int{}, w[len(w)-m:]...)
			if rapid.Bool().Draw(t, "reversedRun") {
				for i, j := 0, len(seg)-1; i < j; i, j = i+1, j-1 {
					seg[i], seg[j] = seg[j], seg[i]
				}
			}
			for i := 0; i < r; i++ {
				w = append(w, seg...)
			}
		case 4: // zig-zag between two symbols, odd or even length
			a, b := rapid.IntRange(0, k-1).Draw(t, "a"), rapid.IntRange(0, k-1).Draw(t, "b")
			n := rapid.IntRange(2, 9).Draw(t, "n")
			for i := 0; i < n; i++ {
				if i%2 == 0 {
					w = append(w, a)
				} else {
					w = append(w, b)
				}
			}
		case 5: // append the reverse of everything so far (palindrome), or of a suffix
			m := rapid.IntRange(1, len(w)+1).Draw(t, "m")
			l := len(w)
			for i := 1; i <= m && l-i >= 0; i++ {
				w = append(w, w[l-i])
			}
		}
	}
	if len(w) > maxLen {
		w = w[:maxLen]
	}
	return w
}

// Nested: a rectangle with C shaped holes (an annulus with a slit of generated width: below a pixel it closes on snapping,
// which pinches an island off). Islands recursively hold further C shaped holes (side by side and nested, up to three deep) or a
// plain rectangular hole, so that snapping creates several nested and sibling shells. Mirrored/transposed at random.
// Returns shell first, then holes; all rings are simple and mutually disjoint by construction.
func Nested(t *rapid.T, q int64) [][]P {
	var holes [][]P
	// fill places holes inside the free rectangle [x0,x1]x[y0,y1] (all holes keep a margin of >= 1 lattice step to it)
	var fill func(x0, y0, x1, y1 int64, depth int)
	cshape := func(x1, y1, X1, Y1, wall int64, slitSide int) (ix0, iy0, ix1, iy1 int64, ok bool) {
		x2, y2, X2, Y2 := x1+wall, y1+wall, X1-wall, Y1-wall
		if X2-x2 < 3 || Y2-y2 < 3 {
			return 0, 0, 0, 0, false
		}
		slit := rapid.Int64Range(1, q+q/2).Draw(t, "slit")
		var ring []P
		if slitSide == 0 { // slit in the right wall
			slit = min(slit, (Y2-y2)-2)
			ys := rapid.Int64Range(y2+1, Y2-slit-1).Draw(t, "slitPos")
			ring = []P{{X1, ys + slit}, {X1, Y1}, {x1, Y1}, {x1, y1}, {X1, y1}, {X1, ys}, {X2, ys}, {X2, y2}, {x2, y2}, {x2, Y2}, {X2, Y2}, {X2, ys + slit}}
		} else { // slit in the top wall
			slit = min(slit, (X2-x2)-2)
			xs := rapid.Int64Range(x2+1, X2-slit-1).Draw(t, "slitPos")
			ring = []P{{xs, Y1}, {x1, Y1}, {x1, y1}, {X1, y1}, {X1, Y1}, {xs + slit, Y1}, {xs + slit, Y2}, {X2, Y2}, {X2, y2}, {x2, y2}, {x2, Y2}, {xs, Y2}}
		}
		holes = append(holes, ring)
		return x2, y2, X2, Y2, true
	}
	fill = func(x0, y0, x1, y1 int64, depth int) {
		w, h := x1-x0, y1-y0
		if w < 5 || h < 5 || len(holes) >= 9 {
			return
		}
		kind := rapid.IntRange(0, 3).Draw(t, "fill")
		if depth >= 3 || w < 3*q || h < 3*q {
			kind = 0
		}
		switch kind {
		case 0: // a plain hole (sometimes none)
			if rapid.IntRange(0, 3).Draw(t, "plainHole") == 0 {
				return
			}
			hx := rapid.Int64Range(x0+1, x1-3).Draw(t, "hx")
			hy := rapid.Int64Range(y0+1, y1-3).Draw(t, "hy")
			hw := rapid.Int64Range(max((x1-1-hx)/2, 1), x1-1-hx).Draw(t, "hw")
			hh := rapid.Int64Range(max((y1-1-hy)/2, 1), y1-1-hy).Draw(t, "hh")
			holes = append(holes, []P{{hx, hy}, {hx + hw, hy}, {hx + hw, hy + hh}, {hx, hy + hh}})
		case 1, 2: // one C
			m := rapid.Int64Range(1, q).Draw(t, "moat")
			wall := rapid.Int64Range(1, q+q/2).Draw(t, "wall")
			if a, b, c, d, ok := cshape(x0+m, y0+m, x1-m, y1-m, wall, rapid.IntRange(0, 1).Draw(t, "slitSide")); ok {
				fill(a, b, c, d, depth+1)
			}
		case 3: // two Cs side by side
			m := rapid.Int64Range(1, q).Draw(t, "moat")
			wall := rapid.Int64Range(1, q).Draw(t, "wall")
			mid := x0 + w/2
			if a, b, c, d, ok := cshape(x0+m, y0+m, mid-m, y1-m, wall, rapid.IntRange(0, 1).Draw(t, "slitSideL")); ok {
				fill(a, b, c, d, depth+1)
			}
			if a, b, c, d, ok := cshape(mid+m, y0+m, x1-m, y1-m, wall, rapid.IntRange(0, 1).Draw(t, "slitSideR")); ok {
				fill(a, b, c, d, depth+1)
			}
		}
	}
	W := rapid.Int64Range(5*q, 16*q).Draw(t, "shellW")
	H := rapid.Int64Range(5*q, 12*q).Draw(t, "shellH")
	// the outermost level always has a C, so that an island exists
	m := rapid.Int64Range(1, q).Draw(t, "moat0")
	wall := rapid.Int64Range(1, q+q/2).Draw(t, "wall0")
	if rapid.Bool().Draw(t, "twoOuterCs") && W >= 8*q {
		mid := W / 2
		if a, b, c, d, ok := cshape(m, m, mid-m, H-m, wall, rapid.IntRange(0, 1).Draw(t, "slitSideL0")); ok {
			fill(a, b, c, d, 1)
		}
		if a, b, c, d, ok := cshape(mid+m, m, W-m, H-m, wall, rapid.IntRange(0, 1).Draw(t, "slitSideR0")); ok {
			fill(a, b, c, d, 1)
		}
	} else if a, b, c, d, ok := cshape(m, m, W-m, H-m, wall, rapid.IntRange(0, 1).Draw(t, "slitSide0")); ok {
		fill(a, b, c, d, 1)
	}
	// the order in which the holes are listed is arbitrary: shuffle (the enclosing C may come after the enclosed one)
	for i := len(holes) - 1; i > 0; i-- {
		j := rapid.IntRange(0, i).Draw(t, "shuffle")
		holes[i], holes[j] = holes[j], holes[i]
	}
	rings := append([][]P{{{0, 0}, {W, 0}, {W, H}, {0, H}}}, holes...)
	// random symmetry
	tr := rapid.IntRange(0, 7).Draw(t, "symmetry")
	for _, r := range rings {
		for i, p := range r {
			if tr&1 != 0 {
				p.X = W - p.X
			}
			if tr&2 != 0 {
				p.Y = H - p.Y
			}
			if tr&4 != 0 {
				p.X, p.Y = p.Y, p.X
			}
			r[i] = p
		}
	}
	return rings
}

// Annulus: a rectangular frame whose hole is the shell inset by a generated width (below, at or above a pixel): when it is
// thinner than a pixel shell and hole snap to the same ring and cancel each other.
func Annulus(t *rapid.T, q int64) [][]P {
	w := rapid.Int64Range(2*q, 8*q).Draw(t, "frameW")
	h := rapid.Int64Range(2*q, 8*q).Draw(t, "frameH")
	d := rapid.Int64Range(1, q+q/2).Draw(t, "frameThickness")
	if 2*d >= w-1 {
		d = max((w-2)/2, 1)
	}
	if 2*d >= h-1 {
		d = max((h-2)/2, 1)
	}
	ox, oy := rapid.Int64Range(0, q).Draw(t, "ox"), rapid.Int64Range(0, q).Draw(t, "oy")
	shell := []P{{ox, oy}, {ox + w, oy}, {ox + w, oy + h}, {ox, oy + h}}
	hole := []P{{ox + d, oy + d}, {ox + w - d, oy + d}, {ox + w - d, oy + h - d}, {ox + d, oy + h - d}}
	return [][]P{shell, hole}
}

// BigStar: a star shaped ring with n vertices whose radius is large enough (>= 0.6 * n lattice units) that neighbouring
// vertices stay several lattice steps apart, so it remains simple after rounding to the lattice.
func BigStar(t *rapid.T, n int) (ring []P, w int64) {
	w = int64(n) * rapid.Int64Range(2, 4).Draw(t, "bigScale")
	c := float64(w) / 2
	base := rapid.Float64Range(0, 2*math.Pi).Draw(t, "base")
	for i := 0; i < n; i++ {
		a := base + (float64(i)+rapid.Float64Range(0.2, 0.8).Draw(t, "ang"))*2*math.Pi/float64(n)
		r := rapid.Float64Range(0.6, 1).Draw(t, "rad") * c
		p := P{int64(math.Round(c + r*math.Cos(a))), int64(math.Round(c + r*math.Sin(a)))}
		if len(ring) > 0 && ring[len(ring)-1] == p {
			continue
		}
		ring = append(ring, p)
	}
	return ring, w
}

// BigSmooth: a smooth closed curve (radius modulated by a low frequency sine) with n vertices about two pixels apart
// (q lattice steps per pixel): large, yet no part of it collapses.
func BigSmooth(t *rapid.T, n int, q int64) (ring []P, w int64) {
	c := 1.8 * float64(n) * float64(q) / 4
	w = int64(2*c) + 2
	k := float64(rapid.IntRange(2, 7).Draw(t, "lobes"))
	phi := rapid.Float64Range(0, 2*math.Pi).Draw(t, "phase")
	for i := 0; i < n; i++ {
		a := (float64(i) + rapid.Float64Range(0.3, 0.7).Draw(t, "ang")) * 2 * math.Pi / float64(n)
		r := c * (0.75 + 0.2*math.Sin(k*a+phi))
		p := P{int64(math.Round(c + r*math.Cos(a))), int64(math.Round(c + r*math.Sin(a)))}
		if len(ring) > 0 && ring[len(ring)-1] == p {
			continue
		}
		ring = append(ring, p)
	}
	return ring, w
}

// Sieve: two rectangular lobes joined by a corridor of generated width (below a pixel it closes and the shell splits in
// two), each lobe perforated by a regular grid of square holes (side and gap >= 1.5 pixels, so they survive): hundreds to
// more than a thousand holes.
func Sieve(t *rapid.T, q int64, maxHoles int) [][]P {
	cell := 3*q + rapid.Int64Range(0, q).Draw(t, "cell") // pitch of the hole grid
	side := cell / 2
	nx := rapid.Int64Range(4, 40).Draw(t, "nx")
	ny := rapid.Int64Range(4, 40).Draw(t, "ny")
	for 2*nx*ny > int64(maxHoles) {
		if nx > ny {
			nx--
		} else {
			ny--
		}
	}
	lw, lh := nx*cell+cell/2, ny*cell+cell/2
	cor := rapid.Int64Range(1, q+q/2).Draw(t, "corridor")
	clen := rapid.Int64Range(q, 4*q).Draw(t, "corridorLen")
	cy := rapid.Int64Range(1, lh-cor-1).Draw(t, "corridorY")
	x2 := lw + clen
	shell := []P{{0, 0}, {lw, 0}, {lw, cy}, {x2, cy}, {x2, 0}, {x2 + lw, 0}, {x2 + lw, lh}, {x2, lh}, {x2, cy + cor}, {lw, cy + cor}, {lw, lh}, {0, lh}}
	rings := [][]P{shell}
	for _, ox := range []int64{0, x2} {
		for i := int64(0); i < nx; i++ {
			for j := int64(0); j < ny; j++ {
				x, y := ox+cell/4+i*cell+cell/4, cell/4+j*cell+cell/4
				rings = append(rings, []P{{x, y}, {x + side, y}, {x + side, y + side}, {x, y + side}})
			}
		}
	}
	// the order of the holes is arbitrary
	for i := len(rings) - 1; i > 1; i-- {
		j := rapid.IntRange(1, i).Draw(t, "shuffle")
		rings[i], rings[j] = rings[j], rings[i]
	}
	return rings
}

// convexBlob: a convex polygon (counter clockwise) with a unique rightmost and a unique leftmost vertex, about w x h lattice
// steps, its edges sloping in all directions.
func convexBlob(t *rapid.T, w, h int64, label string) []P {
	n := rapid.IntRange(5, 11).Draw(t, label+"N")
	base := rapid.Float64Range(0, 2*math.Pi).Draw(t, label+"Base")
	var ring []P
	for i := 0; i < n; i++ {
		a := base + (float64(i)+rapid.Float64Range(0.15, 0.85).Draw(t, label+"Ang"))*2*math.Pi/float64(n)
		p := P{int64(math.Round(float64(w)/2 + float64(w)/2*math.Cos(a))), int64(math.Round(float64(h)/2 + float64(h)/2*math.Sin(a)))}
		if len(ring) > 0 && ring[len(ring)-1] == p {
			continue
		}
		ring = append(ring, p)
	}
	return ring
}

// Pinched: two convex blobs with sloping edges joined by a corridor of generated width (below a pixel it closes and the shell
// splits in two parts of different size), with small triangular or quadrilateral holes placed near the boundary of the blobs -
// near sloping edges, in corners of the bounding boxes, next to the neck. Hole matching after a split has to decide between
// several outer rings from the coordinates alone; this family gives it holes that hug the extremes of a part.
// Not every draw is a valid polygon (the oracle checks exactly and sets the others aside).
func Pinched(t *rapid.T, q int64) [][]P {
	wa, ha := rapid.Int64Range(6*q, 16*q).Draw(t, "wa"), rapid.Int64Range(6*q, 16*q).Draw(t, "ha")
	wb, hb := rapid.Int64Range(3*q, 10*q).Draw(t, "wb"), rapid.Int64Range(3*q, 10*q).Draw(t, "hb")
	a := convexBlob(t, wa, ha, "a")
	b := convexBlob(t, wb, hb, "b")
	gap := rapid.Int64Range(q/2, 4*q).Draw(t, "neckLen")
	half := rapid.Int64Range(1, q).Draw(t, "neckHalfWidth") // corridor width 2*half lattice steps: 0.5 .. 2 pixels for q = 4
	// rightmost vertex of a, leftmost vertex of b
	ri, li := 0, 0
	for i, p := range a {
		if p.X > a[ri].X || p.X == a[ri].X && p.Y < a[ri].Y {
			ri = i
		}
	}
	for i, p := range b {
		if p.X < b[li].X || p.X == b[li].X && p.Y < b[li].Y {
			li = i
		}
	}
	dy := a[ri].Y - b[li].Y + rapid.Int64Range(-q, q).Draw(t, "neckSlope") // the corridor may slope a little
	dx := a[ri].X + gap - b[li].X
	for i := range b {
		b[i] = P{b[i].X + dx, b[i].Y + dy}
	}
	var shell []P
	for k := 1; k <= len(a); k++ { // a, starting after its rightmost vertex, back to it
		i := (ri + k) % len(a)
		if i == ri {
			break
		}
		shell = append(shell, a[i])
	}
	shell = append(shell, P{a[ri].X, a[ri].Y - half})
	shell = append(shell, P{b[li].X, b[li].Y - half})
	for k := 1; k < len(b); k++ {
		shell = append(shell, b[(li+k)%len(b)])
	}
	shell = append(shell, P{b[li].X, b[li].Y + half})
	shell = append(shell, P{a[ri].X, a[ri].Y + half})
	if !kernel.RingSimple(shell) { // (a neck that cuts a corner of a blob: rare) fall back to the larger blob alone
		shell = a
	}
	rings := [][]P{shell}
	// holes near the boundary of a blob
	centroid := func(r []P) P {
		var sx, sy int64
		for _, p := range r {
			sx, sy = sx+p.X, sy+p.Y
		}
		return P{sx / int64(len(r)), sy / int64(len(r))}
	}
	nh := rapid.IntRange(1, 3).Draw(t, "pinchHoles")
	for k := 0; k < nh; k++ {
		blob := a
		if rapid.Bool().Draw(t, "holeInB") {
			blob = b
		}
		c := centroid(blob)
		i := rapid.IntRange(0, len(blob)-1).Draw(t, "holeEdge")
		p0, p1 := blob[i], blob[(i+1)%len(blob)]
		// a point on the edge (or at the vertex), pulled towards the centroid by a generated fraction
		f := rapid.Int64Range(0, 8).Draw(t, "along")
		m := P{p0.X + (p1.X-p0.X)*f/8, p0.Y + (p1.Y-p0.Y)*f/8}
		pull := rapid.Int64Range(1, 5).Draw(t, "pull") // eighths of the way to the centroid
		hc := P{m.X + (c.X-m.X)*pull/8, m.Y + (c.Y-m.Y)*pull/8}
		s := rapid.Int64Range(q/2, 3*q).Draw(t, "holeSize")
		var hole []P
		switch rapid.IntRange(0, 3).Draw(t, "holeShape") {
		case 0: // triangle with its right angle towards the upper right
			hole = []P{{hc.X, hc.Y}, {hc.X - s, hc.Y}, {hc.X, hc.Y - s}}
		case 1: // towards the lower left
			hole = []P{{hc.X, hc.Y}, {hc.X + s, hc.Y}, {hc.X, hc.Y + s}}
		case 2: // square
			hole = []P{{hc.X, hc.Y}, {hc.X + s, hc.Y}, {hc.X + s, hc.Y + s}, {hc.X, hc.Y + s}}
		default: // a sliver parallel to the edge
			ex, ey := p1.X-p0.X, p1.Y-p0.Y
			l := max(abs64(ex), abs64(ey), 1)
			hole = []P{{hc.X, hc.Y}, {hc.X + ex*s/l, hc.Y + ey*s/l}, {hc.X + ex*s/l - ey*q/(2*l), hc.Y + ey*s/l + ex*q/(2*l)}}
		}
		// construction rather than rejection: a hole that does not fit (touches or leaves the shell, meets another hole) is left out
		if cand := append(append([][]P{}, rings...), hole); kernel.ValidPolygon(cand) {
			rings = cand
		}
	}
	// shift into the positive quadrant
	var mx, my int64
	for _, r := range rings {
		for _, p := range r {
			mx, my = min(mx, p.X), min(my, p.Y)
		}
	}
	for _, r := range rings {
		for i := range r {
			r[i] = P{r[i].X - mx, r[i].Y - my}
		}
	}
	return rings
}

func abs64(v int64) int64 {
	if v < 0 {
		return -v
	}
	return v
}
