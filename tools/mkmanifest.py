#!/usr/bin/env python3
"""Regenerates MANIFEST.json from the table below and validates it against the schema."""
import json, os, sys
ROOT = os.path.dirname(os.path.dirname(os.path.abspath(__file__)))

# id -> (built?, technique, level text, level note, design ref)
T = {}
def c(pid, built, technique, text, note, ref):
    T[pid] = dict(built=built, technique=technique, text=text, note=note, ref=ref)

PBT = "property-based testing (pgregory.net/rapid): "
KERNEL = "Trusted: harness kernel (exact integer predicates with 128 bit products, grid model with the extent from tms20.MatrixBoundingBox, routing reference cross-validated against exact-rational witness enumeration), rapid. "

c("C01", True, PBT + "valid-polygon generators by construction + exact proper-crossing oracle over all output edge pairs; shrunk failures become replay files",
  "Generated search: 26 000 (quick) to 4 900 000 (thorough) valid polygons built to hit pixel ties and collapses (edge-split growth, stars, combs, zig-zags, polyomino outlines, holes, nested and pinched shapes, templates turned by 45 degrees; sub-check C01Far: the deepest tile matrices of five built-in sets incl. the strip behind the last addressable pixel) on synthetic dyadic grids, NetherlandsRDNewQuad and WebMercatorQuad, 1-4 ids, all flag combinations; every pair of output edges of a tile matrix is tested for a proper crossing with exact orientation predicates. Plus an exhaustive slice: all 85 320 triangles on the quarter pixel lattice of a 2x2 pixel window at two grid positions (quick: every 16th). Falsification only beyond that slice: silence means no crossing among the explored cases and sizes (<= 40 vertices per ring, <= 3 holes, <= 4 ids).",
  KERNEL + "Open known finding F5 (invented edge when the routed boundary passes a centre >= 3 times) is excluded by signature and reported as KNOWN-FINDING.",
  "DESIGN.md §5 C01")
c("C02", True, PBT + "differential against an independent routing reference model (separating-axis test with symbolic shrink) + exhaustive enumeration of a quarter-pixel lattice slice",
  "Sub-checks: (a) PointIndex.SnapClosestPoints at every level against the reference for generated segments/occupied sets/grids incl. built-in grids (100 000 quick, 16 M thorough); (a') a stateful variant: rounds of insert-then-snap on ONE index; (a'') long segments through or just past a pixel corner from up to a whole grid away (fixed point differences above 2^53); (b) non-collapsing valid polygons must come back as exactly the routed boundary, ring by ring, direction sensitive; (c) exhaustive: all 28 561 segments on the quarter-pixel lattice of a 3x3 window x 30 occupied sets x 3 window positions (quick: 10 sets, 1 position). Exhaustive only for the stated slice, falsification beyond it.",
  KERNEL + "F1 (fixed in f7c02fb) witnesses are replayed on every run.",
  "DESIGN.md §5 C02")
c("C03", True, PBT + "generated polygons on every accepted built-in set and id; oracle = nearest ideal pixel centre computed from the document numbers, tolerance = the deviation the tool reports; exhaustive sub-check through the real binary for the reported deviation",
  "Every ordinate returned for 30 000 (quick) / 4.8 M (thorough) small polygons anchored at corners, splits and anywhere on the 7 accepted built-in sets and synthetic non-zero-origin grids is compared with the ideal grid derived from the document alone; cases where the reported deviation makes the test indiscriminate are counted as trivial. Sub-check C03Cli: for every accepted set and seven id lists (ascending, descending, single) the binary prints its deviation warning iff DeviationStats for the LARGEST requested id reports >= 1 pixel, with that value and id.",
  "Trusted: document numbers, pointindex.DeviationStats as the reported deviation (per the property statement), float64 arithmetic with the stated tolerance (dev + 1e-9 + 4 ulp).",
  "DESIGN.md §5 C03")
c("C04", True, PBT + "valid-polygon generators + three exact validity predicates (vertex provenance, half-pixel Chebyshev corridor via closed-box separating-axis test, coverage at lattice sample locations)",
  "10 000 (quick) / 1.6 M (thorough) valid polygons incl. holes and collapse-prone templates, plus 6 000 / 960 000 nested, pinched and annulus shapes at the deepest tile matrices of five built-in sets incl. the strip behind the last addressable pixel (C04Far); every output vertex must be the centre of a pixel holding an input vertex, sampled points of every output edge must stay within half a pixel of the input boundary, and every sampled location farther than a pixel from the boundary must be covered iff the input covers it. Clause 2 and 3 are sampled (one-directional: a reported excess is real). Plus the exhaustive triangle slice of C01.",
  KERNEL + "Open known findings F5 (invented edge, maxVisits >= 3) and F12 (hole attached to a cancelled zero-area island) are excluded by signature and reported as KNOWN-FINDING.",
  "DESIGN.md §5 C04")
c("C18", True, PBT + "collapse-biased valid-polygon generators + reference model (routed boundary) with exact explained-edge, hole-containment and signed-area predicates",
  "21 000 (quick) / 3.0 M (thorough) valid polygons biased to collapse (incl. sub-check C18Far at the deepest tile matrices of five built-in sets); for every requested tile matrix whose routed boundary passes no centre more than twice: every output edge is a straight run of routed edges, holes lie in or on their shell, and the signed area equals the routed boundary's, exactly; shapes include nested C-shaped holes and (rarely) a 'sieve' with hundreds to 2400 holes in a shell that splits. Found F14. Plus the exhaustive triangle slice of C01.",
  KERNEL, "DESIGN.md §5 C18")
c("C05", True, PBT + "arbitrary (valid and invalid) polygon generators, both keep modes per case, structural invariant oracle",
  "30 000 (quick) / 4.8 M (thorough) arbitrary polygons (repetitive scribbles, words over pixel centres, tiny rings, empty rings, polygons without any ring) on grids incl. WebMercator/UPS/ETRS89 (magnitudes above 2^53, y,x axis order); every returned ring is checked for orientation (exact area sign), closure, repetition, size, and the keep/no-keep prefix relation; rare cases with 65-140 rings; sub-check C05Pipe applies the collapse policy to what processing.ProcessFeatures hands to its targets (real snapping function); thorough adds the native fuzz target FuzzC05.",
  KERNEL + "F4 and F9 (fixed) are covered by the generators.", "DESIGN.md §5 C05")
c("C06", True, PBT + "arbitrary vertex sequences from a repetition grammar + exhaustive enumeration of short centre words + (thorough) native coverage-guided fuzzing; oracle = returns without panic within a confirmed hang limit",
  "50 000 (quick) / 3.2 M (thorough) arbitrary polygons of up to 200 (thorough 600) vertices per ring, plus ALL words without equal neighbours over 3/4/5 pixel centres up to length 10/8/6 (thorough 13/10/8) driving kmpDeduplicate/splitRing directly; ALL periodic words pre + u^a + v^b + suf over three centres (a, b up to 7, thorough 9; found F15); a fixed list of large structured inputs (zig-zags of 3000 repeats, slivers of 1000 pixels, combs of 1000 teeth, 3000-vertex stars; thorough larger); run times are recorded, not judged. Liveness is decided only through a 10 s limit (thorough: 30 s) re-confirmed at 60 s in a fresh process.",
  "Open known finding F10 (tile matrices deeper than quadtree level 32 panic with 'cannot make Z') is excluded by signature and reported as KNOWN-FINDING.", "DESIGN.md §5 C06")
c("C07", True, PBT + "metamorphic relations: repetition in process and in a second process, every subset of rings reversed, reverse flag toggled",
  "10 000 (quick) / 1.6 M (thorough) polygons x ~8 snaps each: three in-process repetitions, a digest comparison with a second process for up to 3000 multi-level cases per run (Go randomises map order per process), all 2^r-1 ring reversal subsets, the reverse-flag relation ring by ring, repetitions under GOMAXPROCS 1 and 8, the returned geometry must not change while another polygon is snapped, 1 case in 150 (thorough 400) is a star of 520-2600 vertices (thorough 4000); the same polygon with its rings laid out in one shared coordinate buffer must give the same result and leave the buffer untouched; 1 case in 8 repeats the call 24 times from 6 goroutines at once.",
  KERNEL, "DESIGN.md §5 C07")
c("C08", True, PBT + "metamorphic/differential: every non-empty subset of a drawn id set against the single-id results, round grids only",
  "10 000 (quick) / 1.6 M (thorough) polygons on synthetic dyadic grids and NetherlandsRDNewQuad; for every subset S of 2-4 drawn ids (listed in drawn, rotated or reversed order, some with an id listed twice) keys(result) is a subset of S and result[z] deep-equals the result of requesting z alone; sub-check C08Huge applies the same oracle to smooth rings of 66 000-90 000 vertices (2 quick / 192 thorough).",
  "Roundness is decided by the harness (span*1e10 mod 2^level == 0).", "DESIGN.md §5 C08")
c("C09", True, PBT + "boundary-distance generators (1e-10 units .. 10 pixels, on the exclusive border, companion inside class) + exact extent oracle on the fixed point reading",
  "50 000 (quick) / 8 M (thorough) polygons with 1-3 vertices displaced relative to the extent; outside => panic wrapping pointindex.OutsideGridError (ignore off) or an empty map (ignore on); inside on round grids => no such error; PointIndex.InsertPoint probed with every vertex; far-away vertices include pairs exactly k*2^32 pixels apart whose Z-order keys collide if an oversized address is folded before it is checked.",
  "Trusted: the extent as read from tms20.MatrixBoundingBox(0). F2 (fixed in 6d18eb6) is covered by the generator.", "DESIGN.md §5 C09")
c("C10", True, PBT + "generated feature streams, outcome tables and delay plans against a sequential reference model with recording fake targets; also under the race detector",
  "3 600 (quick) / 600 000 (thorough) streams through processing.ProcessFeatures with fakes; exact sequence equality per target (count, order, attributes, geometry, tile matrix id), delivered features re-read when the channel closes (must not have changed), return and no leaked goroutine; 1-3 tables per run with the same targets, 1-16 targets, 1 stream in ~60 with 1100-1700 features (thorough 6000) and an optional straggler; one sixth of the streams under -race with halt_on_error.",
  "The snapping function is a fake with marker geometries (the real one is covered end to end by C13).", "DESIGN.md §5 C10")
c("C11", True, PBT + "generated histories (gate schedules owning every step at the pipeline boundary) with invariants after every action; same machine under the race detector; real GeoPackage targets under the race detector",
  "1 500 (quick) / 160 000 (thorough) gate schedules with prefix invariants after every action, done-at-return, goroutine-leak and confirmed-deadlock detection; 20% (quick) / 50% (thorough) under -race; plus ProcessFeatures with 2-5 real gpkg targets under -race (found F11).",
  "The runtime scheduler still orders the internal goroutines: sampled, not enumerated. F11 (fixed in 0ec5fb4) witness replayed.", "DESIGN.md §5 C11")
c("C12", True, PBT + "generated GeoPackage schemas, feature counts around page-size multiples and geometries; read-back oracle over rows, R-tree, extent and metadata",
  "3 200 (quick) / 160 000 (thorough) generated target writes through SourceGeopackage.GetTableInfo -> TargetGeopackage.CreateTables/WriteFeatures; two routes (features fed by the harness; features copied from a source by the tool's reader); rows in order with attributes (INTEGER, REAL, TEXT, DATETIME with sub-millisecond digits) and decoded geometry, spatial index ids, recorded extent, geometry column, table_info and SRS row compared with the source; page sizes 1-40 (120), several hundred with counts around multiples of 999/#columns, huge ones up to MaxInt64, and tables whose full page carries more than 32 766 values (33-40 columns x ~1000 rows, or page sizes 5462/8192); DATETIME values with and without zone offsets; geometry type names spelled in upper, lower and title case in the source.",
  "Runs against the verif-tagged stub driver (go-sqlite3 + ST_* in Go), not libspatialite, which is not installed.", "DESIGN.md §5 C12")
c("C13", True, PBT + "generated source GeoPackages, id lists, flags (short/long/env spellings), target paths and pre-existing files through the REAL binary; differential against the library + independent path rule",
  "1 200 (quick) / 40 000 (thorough) runs of the texel binary built from the working tree on generated sources (polygon, other, mixed GEOMETRY/GEOMETRYCOLLECTION tables, extension type names, registration in another case, sources left open in WAL mode by a second connection); the expected files and rows are computed by calling snap.SnapPolygon in process; rows, attributes, geometry, spatial index, extent, metadata compared; crash expected when a polygon lies outside the grid with -iog off. Found F11.",
  "Differential against the library (itself the subject of C01-C09); stub driver as C12.", "DESIGN.md §5 C13")
c("C14", True, "exhaustive enumeration of the 14 built-in sets (through the real binary and the library) and of all single-field perturbations; rapid for perturbation pairs; independent true-quadtree predicate as a two-sided oracle",
  "All 14 sets through the binary (eight id lists each: single ids and lists in both orders must give one verdict) and the library (never a panic, agreement, accepted <=> true quadtree, pixel pitch measured from actual snapping = cellSize/16 for every id); all ~4 900 single-field perturbations of the 7 accepted sets at every level with a two-sided oracle; 5 000 (quick) / 320 000 (thorough) random perturbation pairs/triples.",
  "The predicate uses the tool's stated 1.99-2.01 band for cell sizes; perturbations are generated clearly inside or outside it. F3 (fixed in 13755cc) is covered by the binary runs.", "DESIGN.md §5 C14")
c("C15", True, PBT + "tiles/points over all built-in sets and their corner-of-origin twins against an independent extent computed from the document numbers",
  "100 000 (quick) / 16 M (thorough) (set, matrix, tile, interior point, outside point) cases: ToNative, FromNative, MatrixBoundingBox, twin agreement, in x,y order decided from orderedAxes; outside points also infinite, NaN and finite up to MaxFloat64; every second case a point 2^-24..2^-44 of a tile from an edge, its tile decided with rational arithmetic and checked when float64 rounding cannot move it across; sub-check C15Ref: 21 reference positions known from the CRS definitions (inside the area of use in x,y order; transposed positions outside).",
  "The independent extent trusts only the document numbers and orderedAxes (not tms20's EPSG axis table).", "DESIGN.md §5 C15")
c("C16", True, PBT + "structure-aware JSON mutator over the shipped documents; round-trip, stability and an independent must-reject predicate; (thorough) native fuzzing for the no-panic clause",
  "10 000 (quick) / 1.6 M (thorough) mutated documents (0-4 mutations) + the 15 shipped documents exhaustively: no panic, decode/encode/decode equality (structural with nil = empty list, and behavioural through MatrixBoundingBox/FromNative), byte-stable encoding also of retained values while other documents are decoded, semantic equality for shipped documents, must-reject classes rejected; one case in three also through tms20.LoadJSONTileMatrixSet on a file (same verdict and value; a document followed by further content is refused). Found F7b and F13.",
  "Numbers confined to |v| <= 2^53. F6, F7, F7b, F8 (fixed) witnesses are replayed on every run.", "DESIGN.md §5 C16")
c("C17", True, PBT + "random wide operands against a bit-by-bit interleave reference + exhaustive one/two-bit patterns",
  "500 000 (quick) / 80 M (thorough) operand quadruples (round trip, parent key, linearity, injectivity, not-encodable above 2^32) plus all 2080 one- and two-bit patterns and their complements (exhaustive); sub-check C17Index (30 000 quick / 4.8 M thorough insertion histories into one PointIndex at quadtree levels 17-36: addresses built to collide under folding or truncation must be refused or reported, accepted pixels are found again, others are not).",
  "Bit-linearity + the exhaustive patterns is an argument for all 2^64 pairs, not exhaustive coverage.", "DESIGN.md §5 C17")

ALL = ["C01","C02","C03","C04","C18","C05","C06","C07","C08","C09","C10","C11","C12","C13","C14","C15","C16","C17"]

def main():
    checks, na = [], []
    for pid in ALL:
        t = T.get(pid)
        if not t or not t["built"]:
            na.append(dict(property_id=pid, reason="check not built yet in this revision (planned in DESIGN.md §5 %s)" % pid))
            continue
        checks.append(dict(property_id=pid, quick_cmd="./check %s quick" % pid, thorough_cmd="./check %s thorough" % pid,
                           evidence_file="/verif/evidence/%s.json" % pid, replay_cmd_template="./check %s --replay {path}" % pid,
                           engine="harness", level_claimed=dict(category="exploration", text=t["text"], design_ref=t["ref"]),
                           level_note=t["note"], technique=t["technique"]))
    m = dict(version=1, setup_cmd="./check --setup",
             hooks=dict(guard="verif", enable="go build/test -tags verif (the driver passes the tag for the harness test binaries and for the texel CLI binary)",
                        baseline_off_cmd="cd /repo && go test -count=1 ./...",
                        source_commits=["082b271"], add_only=True),
             engines=[dict(name="harness", path="/verif/harness", serves_properties=[c["property_id"] for c in checks],
                           kind_free_text="Go module: rapid property tests + exhaustive enumerations + native fuzz targets, exact-arithmetic reference models; driven by /verif/check")],
             checks=checks,
             notes="One technique family: property-based testing and fuzzing. ./check <ID> quick|thorough; exit 0 held / 1 VIOLATION / 2 inconclusive. Known findings: known_findings.json.",
             not_applicable=na)
    json.dump(m, open(os.path.join(ROOT, "MANIFEST.json"), "w"), indent=1)
    try:
        import jsonschema
        jsonschema.validate(m, json.load(open("/root/.vp/MANIFEST.schema.json")))
        print("MANIFEST valid:", len(checks), "checks,", len(na), "not claimed")
    except ImportError:
        print("jsonschema not available; not validated")

if __name__ == "__main__":
    main()
