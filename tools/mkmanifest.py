#!/usr/bin/env python3
"""Regenerates MANIFEST.json from the table below and validates it against the schema."""
import json, os, sys
ROOT = os.path.dirname(os.path.dirname(os.path.abspath(__file__)))

# id -> (built?, technique, level text, level note, design ref)
T = {}
def c(pid, built, technique, text, note, ref):
    T[pid] = dict(built=built, technique=technique, text=text, note=note, ref=ref)

c("C01", True, "property-based testing (rapid): valid-polygon generators by construction + exact crossing oracle; shrunk failures become replay files",
  "Generated search: tens of thousands (quick) to millions (thorough) of valid polygons built to hit pixel ties and collapses, on synthetic, RD and WebMercator grids, all flag combinations; every output edge pair is tested for a proper crossing with exact integer orientation predicates. Falsification only: silence means no crossing among the explored cases and sizes (<= 40 vertices per ring, <= 3 holes, <= 4 ids).",
  "Trusted: harness kernel (exact predicates, grid model using tms20.MatrixBoundingBox for the extent), rapid. Open known finding F5 (invented edge, maxVisits>=3) is excluded by signature and reported as KNOWN-FINDING.",
  "DESIGN.md §5 C01")

ALL = ["C01","C02","C03","C04","C18","C05","C06","C07","C08","C09","C10","C11","C12","C13","C14","C15","C16","C17"]

def main():
    checks, na = [], []
    for pid in ALL:
        t = T.get(pid)
        if not t or not t["built"]:
            na.append(dict(property_id=pid, reason="check not built yet in this revision (planned in DESIGN.md §5 %s)" % pid))
            continue
        checks.append(dict(property_id=pid, quick_cmd="./check %s quick" % pid, thorough_cmd="./check %s thorough" % pid,
                           evidence_file="/verif/evidence/%s.json" % pid, replay_cmd_template="./check %s --replay {path}" % pid,
                           engine="harness", level_claimed=dict(category="exploration", text=t["text"], design_ref=t["ref"]),
                           level_note=t["note"], technique=t["technique"]))
    m = dict(version=1, setup_cmd="./check --setup",
             hooks=dict(guard="verif", enable="go build/test -tags verif (the driver passes the tag for the harness test binaries and for the texel CLI binary)",
                        baseline_off_cmd="cd /repo && go test -count=1 ./...",
                        source_commits=["082b271"], add_only=True),
             engines=[dict(name="harness", path="/verif/harness", serves_properties=[c["property_id"] for c in checks],
                           kind_free_text="Go module: rapid property tests + exhaustive enumerations + native fuzz targets, exact-arithmetic reference models; driven by /verif/check")],
             checks=checks,
             notes="One technique family: property-based testing and fuzzing. ./check <ID> quick|thorough; exit 0 held / 1 VIOLATION / 2 inconclusive. Known findings: known_findings.json.",
             not_applicable=na)
    json.dump(m, open(os.path.join(ROOT, "MANIFEST.json"), "w"), indent=1)
    try:
        import jsonschema
        jsonschema.validate(m, json.load(open("/root/.vp/MANIFEST.schema.json")))
        print("MANIFEST valid:", len(checks), "checks,", len(na), "not claimed")
    except ImportError:
        print("jsonschema not available; not validated")

if __name__ == "__main__":
    main()
