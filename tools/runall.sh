#!/bin/bash
# usage: tools/runall.sh quick|thorough [ids...]   (runs the checks one after another, validates the evidence files)
cd "$(dirname "$0")/.."
tier=${1:-quick}; shift
ids=${@:-C01 C02 C03 C04 C18 C05 C06 C07 C08 C09 C10 C11 C12 C13 C14 C15 C16 C17}
for id in $ids; do
  s=$(date +%s)
  ./check $id $tier > /tmp/runall-$id.log 2>&1; rc=$?
  e=$(( $(date +%s) - s ))
  v=$(python3-vt -c "
import json,jsonschema,sys
try:
  jsonschema.validate(json.load(open('evidence/$id.json')),json.load(open('/root/.vp/EVIDENCE.schema.json'))); print('evidence-ok')
except Exception as e: print('EVIDENCE-INVALID',str(e)[:100])")
  echo "$id rc=$rc ${e}s $v $(grep -c KNOWN-FINDING /tmp/runall-$id.log) known | $(tail -1 /tmp/runall-$id.log | cut -c1-150)"
done
