#!/usr/bin/env python3
"""Prints the markdown table of seeded changes (seeded/*/meta.json) for DESIGN.md §9."""
import glob, json, os
ROOT = os.path.dirname(os.path.dirname(os.path.abspath(__file__)))
rows = []
for f in sorted(glob.glob(os.path.join(ROOT, "seeded", "*", "meta.json"))):
    m = json.load(open(f))
    det = m.get("detection", {})
    caught = [k for k, v in det.items() if v.get("violation")]
    missed = [k for k, v in det.items() if not v.get("violation")]
    what = (m.get("what") or "").replace("|", "/").replace("\n", " ")
    if len(what) > 230:
        what = what[:227] + "..."
    rows.append("| %s | %s | %s | %s | %s |" % (m["name"], "yes" if m.get("confirmed") else "NO", what, ", ".join("%s (%ss)" % (k, det[k]["seconds"]) for k in caught) or "—", ", ".join(missed) or "—"))
print("| seed | confirmed | change | caught by | run but silent |")
print("|------|-----------|--------|-----------|----------------|")
print("\n".join(rows))
