#!/bin/bash
# usage: tools/mutant.sh [-R] <patch file> <tier> <check ids...>
# applies the patch to /repo's working tree (-R: reversed), checks that the repository's own suite still passes,
# runs the given checks, and undoes the change. Prints one line per check.
cd "$(dirname "$0")/.."
rev=""; if [ "$1" = "-R" ]; then rev="-R"; shift; fi
patch=$1; tier=$2; shift 2
export GOFLAGS=-mod=mod GOPROXY=off GOSUMDB=off GOTOOLCHAIN=local VERIF_EVIDENCE_DIR=/tmp/verif-mutant-evidence
if [ -n "$(git -C /repo status --porcelain)" ]; then echo "/repo is dirty, refusing"; exit 2; fi
git -C /repo apply $rev "$patch" || { echo "PATCH DOES NOT APPLY: $patch"; exit 2; }
trap 'git -C /repo checkout -- . ; git -C /repo clean -fdq -- . >/dev/null 2>&1' EXIT
suite=$(cd /repo && go build ./... 2>&1 | tail -3 && go test -count=1 ./... 2>&1 | grep -v "no test files" | grep -v "^ok" | head -5)
if [ -n "$suite" ]; then echo "  SUITE: $suite" | head -5; else echo "  suite: passes"; fi
for id in "$@"; do
  s=$(date +%s)
  out=$(VERIF_SEED=${VERIF_SEED:-1} ./check $id $tier 2>&1); rc=$?
  e=$(( $(date +%s) - s ))
  echo "  $id rc=$rc ${e}s $(echo "$out" | grep -c '^VIOLATION') violation-lines | $(echo "$out" | grep '^FAILURE' | head -1 | cut -c1-220)"
done
rm -rf replays/out
