#!/bin/bash
# re-runs every seeded change against the checks that caught it before (quick tier), to keep seeded/*/meta.json current
cd "$(dirname "$0")/.."
for d in seeded/*/; do
  n=$(basename $d)
  [ -f $d/meta.json ] || continue
  checks=$(python3 -c "
import json
m=json.load(open('$d/meta.json'))
det=m.get('detection',{})
c=[k.split('/')[0] for k,v in det.items() if v.get('violation') and k.endswith('/quick')]
print(','.join(sorted(set(c))) or m.get('property'))")
  if ! git -C /repo apply --check $PWD/$d/patch.diff 2>/dev/null; then echo "$n: PATCH NO LONGER APPLIES"; continue; fi
  python3 tools/evalseed.py $d --no-confirm --checks "$checks" 2>&1 | head -1 | cut -c1-200
done
