#!/usr/bin/env python3
"""Confirm a seeded change (suite passes with it, its demonstration fails with it and passes without it) in a scratch
worktree, then run checks against it in /repo (apply, run, undo) and record the outcome under /verif/seeded/<name>/.

usage: tools/evalseed.py <seed dir> [--checks C01,C02] [--thorough C01] [--no-confirm]
"""
import json, os, shutil, subprocess, sys, time

ROOT = os.path.dirname(os.path.dirname(os.path.abspath(__file__)))
ENV = dict(os.environ, GOFLAGS="-mod=mod", GOPROXY="off", GOSUMDB="off", GOTOOLCHAIN="local", VERIF_EVIDENCE_DIR="/tmp/verif-mutant-evidence")

def sh(cmd, cwd, timeout=1800, env=ENV):
    try:
        r = subprocess.run(cmd, shell=True, cwd=cwd, env=env, capture_output=True, text=True, timeout=timeout)
        return r.returncode, (r.stdout + r.stderr)
    except subprocess.TimeoutExpired:
        return 124, "TIMEOUT"

def main():
    seed = os.path.abspath(sys.argv[1])
    name = os.path.basename(seed.rstrip("/"))
    args = sys.argv[2:]
    meta = json.load(open(os.path.join(seed, "meta.json")))
    prop = meta.get("property", name.split("-")[0])
    checks = [prop]
    thorough = []
    confirm = True
    i = 0
    while i < len(args):
        if args[i] == "--checks":
            checks = args[i + 1].split(","); i += 2
        elif args[i] == "--thorough":
            thorough = args[i + 1].split(","); i += 2
        elif args[i] == "--no-confirm":
            confirm = False; i += 1
        else:
            i += 1
    out = dict(name=name, property=prop, what=meta.get("what"), needs=meta.get("needs"), demo_cmd=meta.get("demo_cmd"), ran=[])
    patch = os.path.join(seed, "patch.diff")
    if confirm:
        wt = "/tmp/wt/eval-%s-%d" % (name, os.getpid())
        rc, o = sh("git -C /repo worktree add --detach %s HEAD -q" % wt, "/")
        try:
            import re
            demo = re.split(r"\s{2,}\(", meta.get("demo_cmd"))[0]  # drop a trailing parenthetical remark
            # 1. the change alone: it must build and the repository's own suite must pass
            rca, oa = sh("git apply %s" % patch, wt)
            rcb, ob = sh("go build ./... && go test -count=1 ./... 2>&1 | grep -v 'no test files'", wt)
            bad = [l for l in ob.splitlines() if l.strip() and not l.startswith("ok")]
            out["suite_with_change"] = "pass" if rca == 0 and rcb == 0 and not bad else "FAIL: " + " | ".join(bad[:3]) + (oa if rca else "")
            # 2. the demonstration with the change
            os.makedirs(os.path.join(wt, "SEEDS"), exist_ok=True)
            shutil.copytree(seed, os.path.join(wt, "SEEDS", name))
            rc1, o1 = sh(demo, wt)
            failed = lambda rc, o: rc != 0 or "--- FAIL" in o or "\nFAIL" in o or o.startswith("FAIL")  # (a demo_cmd may end with a clean-up command)
            out["demo_with_change"] = "fail" if failed(rc1, o1) else "PASSES(unexpected)"
            out["demo_output_with_change"] = "\n".join([l for l in o1.splitlines() if l.strip()][:12])[:1500]
            # 3. the demonstration without the change
            sh("git apply -R %s" % patch, wt)
            rc0, o0 = sh(demo, wt)
            out["demo_without_change"] = "pass" if not failed(rc0, o0) else "FAIL(%d): %s" % (rc0, o0[-300:])
            out["ran"].append("scratch worktree %s: git apply patch.diff; go build ./... && go test -count=1 ./... (repository suite, must pass); demo_cmd with the change (must fail); git apply -R; demo_cmd without the change (must pass)" % wt)
        finally:
            sh("git -C /repo worktree remove --force %s" % wt, "/")
            shutil.rmtree(wt, ignore_errors=True)
        out["confirmed"] = out.get("demo_without_change") == "pass" and out.get("suite_with_change") == "pass" and out.get("demo_with_change") == "fail"
    # run the checks against /repo with the change applied (--clone: against a scratch clone of /repo, from a snapshot of /verif,
    # so that /repo itself stays free for a long run; the driver honours VERIF_REPO only outside /verif)
    clone = "--clone" in args
    repo = "/repo"
    if clone:
        repo = "/dev/shm/repo-seed-%d" % os.getpid()
        shutil.rmtree(repo, ignore_errors=True)
        sh("git clone -q /repo %s" % repo, "/")
    rc, st = sh("git -C %s status --porcelain" % repo, "/")
    if st.strip():
        print("%s is dirty, refusing" % repo); sys.exit(2)
    rc, o = sh("git -C %s apply %s" % (repo, patch), "/")
    if rc != 0:
        out["apply_error"] = o
    else:
        try:
            det = {}
            for tier, ids in (("quick", checks), ("thorough", thorough)):
                for cid in ids:
                    t0 = time.time()
                    rc, o = sh("./check %s %s" % (cid, tier), ROOT, timeout=7200, env=dict(ENV, VERIF_SEED=os.environ.get("VERIF_SEED", "1"), **({"VERIF_REPO": repo} if clone else {})))
                    fl = [l for l in o.splitlines() if l.startswith("FAILURE") or l.startswith("REPLAY-FAILED")]
                    det["%s/%s" % (cid, tier)] = dict(rc=rc, seconds=round(time.time() - t0, 1), violation=(rc == 1), first_failure=(fl[0][:400] if fl else ""))
                    out["ran"].append("git -C /repo apply patch.diff; ./check %s %s (VERIF_SEED=%s) -> exit %d; git -C /repo checkout -- ." % (cid, tier, os.environ.get("VERIF_SEED", "1"), rc))
            out["detection"] = det
        finally:
            if clone:
                shutil.rmtree(repo, ignore_errors=True)
                sh("git checkout -- harness/go.mod", ROOT)
            else:
                sh("git -C /repo checkout -- . && git -C /repo clean -fdq", "/")
            shutil.rmtree(os.path.join(ROOT, "replays", "out"), ignore_errors=True)
    dst = os.path.join(ROOT, "seeded", name)
    os.makedirs(dst, exist_ok=True)
    if os.path.abspath(seed) != os.path.abspath(dst):
        shutil.copy(patch, os.path.join(dst, "patch.diff"))
    if os.path.abspath(seed) != os.path.abspath(dst) and os.path.isdir(os.path.join(seed, "demo")):
        shutil.rmtree(os.path.join(dst, "demo"), ignore_errors=True)
        shutil.copytree(os.path.join(seed, "demo"), os.path.join(dst, "demo"))
    prev = {}
    if os.path.exists(os.path.join(dst, "meta.json")):
        try:
            prev = json.load(open(os.path.join(dst, "meta.json")))
        except Exception:
            prev = {}
    if not confirm:
        for k in ("demo_without_change", "suite_with_change", "demo_with_change", "demo_output_with_change", "confirmed"):
            if k in prev:
                out[k] = prev[k]
        out["ran"] = prev.get("ran", []) + out["ran"]
    if "detection" in prev:
        d = dict(prev["detection"]); d.update(out.get("detection", {})); out["detection"] = d
    out["breaks_property"] = prop
    json.dump(out, open(os.path.join(dst, "meta.json"), "w"), indent=1)
    det = out.get("detection", {})
    print("%s confirmed=%s | %s" % (name, out.get("confirmed"), ", ".join("%s:%s(%ss)" % (k, "CAUGHT" if v["violation"] else "missed rc=%d" % v["rc"], v["seconds"]) for k, v in det.items())))
    for k, v in det.items():
        if v["violation"]:
            print("    ", k, v["first_failure"][:200])

if __name__ == "__main__":
    main()
