#!/usr/bin/env python3
"""Sensitivity mutants written by hand from the lists in DESIGN.md §5: each is a one-place textual change to /repo.
For each: apply, make sure the repository's own suite still passes (otherwise the mutant is not interesting), run the
named checks (quick), undo. Results go to seeded/own-mutants.json.   usage: tools/ownmutants.py [name-prefix ...]
"""
import json, os, subprocess, sys, time, shutil
ROOT = os.path.dirname(os.path.dirname(os.path.abspath(__file__)))
ENV = dict(os.environ, GOFLAGS="-mod=mod", GOPROXY="off", GOSUMDB="off", GOTOOLCHAIN="local", VERIF_EVIDENCE_DIR="/tmp/verif-mutant-evidence")

M = [
 # name, file, old, new, checks
 ("C01-mutex-dropped", "pointindex/pointindex.go", "if quadrantToCheck.mutex && mutexed {", "if false && quadrantToCheck.mutex && mutexed {", ["C02", "C01"]),
 ("C01-containsPoint-le", "pointindex/pointindex.go", "intExtent.MinX() <= intPt[0] && intPt[0] < intExtent.MaxX() &&", "intExtent.MinX() <= intPt[0] && intPt[0] <= intExtent.MaxX() &&", ["C02", "C01"]),
 ("C01-infinite-quadrant-gt", "pointindex/pointindex.go", "isRight := mathhelp.Bool2int(intPt[0] >= intCentroid[0])", "isRight := mathhelp.Bool2int(intPt[0] > intCentroid[0])", ["C02", "C01"]),
 ("C03-resolution-8", "pointindex/pointindex.go", "VectorTileInternalPixelResolution = 16", "VectorTileInternalPixelResolution = 8", ["C03", "C14"]),
 ("C03-centroid-no-half", "pointindex/pointindex.go", "intMinX + (int64(x))*intQuadrantSpan + intQuadrantSpan/2, // <-- here is the plus 0.5 internal pixel size", "intMinX + (int64(x))*intQuadrantSpan + intQuadrantSpan/4,", ["C03", "C02"]),
 ("C03-yspan", "pointindex/pointindex.go", "deepestRes:   intExtent.XSpan() / int64(deepestSize),", "deepestRes:   intExtent.YSpan() / int64(deepestSize),", ["C03", "C15"]),
 ("C04-dedupe-one-too-many", "snap/snap.go", "numOutersToDelete = lenEqualOuters - 1\n\t\t\tnumInnersToDelete = lenEqualInners - 1", "numOutersToDelete = lenEqualOuters - 1\n\t\t\tnumInnersToDelete = lenEqualInners", ["C04", "C18"]),
 ("C04-largest-shell", "snap/snap.go", "return i > j // desc", "return i < j // desc", ["C04", "C18"]),
 ("C18-ringsAreEqual-ignores-direction", "snap/snap.go", "differentWindingOrder := iIsOuter && !jIsOuter", "differentWindingOrder := false && iIsOuter && !jIsOuter", ["C18", "C04"]),
 ("C18-kmp-sequenceStart-plus1", "snap/snap.go", "sequenceStart := start + len(segment)\n", "sequenceStart := start + len(segment) + 1\n", ["C18", "C05", "C06"]),
 ("C05-keep-closing-vertex", "snap/snap.go", "if newRingLen > 1 && newRing[0] == newRing[newRingLen-1] {", "if newRingLen > 3 && newRing[0] == newRing[newRingLen-1] {", ["C05"]),
 ("C05-reverse-only-shells", "snap/snap.go", "for j := range polygons[i] {\n\t\t\tslices.Reverse(polygons[i][j])", "for j := range polygons[i][:1] {\n\t\t\tslices.Reverse(polygons[i][j])", ["C05", "C07"]),
 ("C05-empty-level-allowed", "snap/snap.go", "if len(newPolygonsForLevel) > 0 {\n\t\t\tnewPolygons[l] = newPolygonsForLevel\n\t\t}", "newPolygons[l] = newPolygonsForLevel", ["C05"]),
 ("C06-kmp-m-not-advanced", "snap/snap.go", "i = 0\n\t\t\t\tm++", "i = 0\n\t\t\t\tm += 2", ["C06", "C05", "C18"]),
 ("C07-plain-map-in-dedupe", "snap/snap.go", "sort.Ints(completeRingKeys)", "// sort.Ints(completeRingKeys)", ["C07"]),
 ("C07-no-winding-normalisation", "snap/snap.go", "ring = ensureCorrectWindingOrder(ring, !isOuter)", "if isOuter {\n\t\t\tring = ensureCorrectWindingOrder(ring, !isOuter)\n\t\t}", ["C07"]),
 ("C08-never-delete-level", "snap/snap.go", "delete(levelMap, level) // If too small, delete it\n\t\t\t\tcontinue", "continue", ["C08", "C05"]),
 ("C09-size-not-minus-1", "pointindex/pointindex.go", "deepestX > int(ix.deepestSize)-1 || deepestY > int(ix.deepestSize)-1", "deepestX > int(ix.deepestSize) || deepestY > int(ix.deepestSize)", ["C09"]),
 ("C09-string-panic", "snap/snap.go", "\t\t} else {\n\t\t\tpanic(err)\n\t\t}", "\t\t} else {\n\t\t\tpanic(err.Error())\n\t\t}", ["C09"]),
 ("C10-wrong-id-in-wrapper", "processing/processing.go", "featuresOut <- wrapFeatureForTileMatrix(feature, tmID, newMultiPolygon)", "featuresOut <- wrapFeatureForTileMatrix(feature, tmIDs[0], newMultiPolygon)", ["C10", "C13"]),
 ("C10-skip-single", "processing/processing.go", "if len(newPolygons) == 1 {\n\t\t\t\t\tnewGeometry = newPolygons[0]", "if len(newPolygons) == 1 {\n\t\t\t\t\tcontinue", ["C10", "C13"]),
 ("C11-no-close-featuresOut", "processing/processing.go", "\tclose(featuresOut)\n", "\t// close(featuresOut)\n", ["C11"]),
 ("C12-features-not-reset", "processing/gpkg/gpkg.go", "\t\t\ttarget.writeFeatures(features)\n\t\t\tfeatures = nil", "\t\t\ttarget.writeFeatures(features)", ["C12", "C13"]),
 ("C12-flush-at-pagesize-minus-1", "processing/gpkg/gpkg.go", "if len(features)%target.pagesize == 0 {", "if len(features)%target.pagesize == target.pagesize-1 {", ["C12"]),
 ("C12-no-final-flush", "processing/gpkg/gpkg.go", "if !hasMore {\n\t\t\ttarget.writeFeatures(features)\n\t\t\tbreak", "if !hasMore {\n\t\t\tbreak", ["C12", "C13"]),
 ("C12-extent-reset-per-feature", "processing/gpkg/gpkg.go", "\t\t} else {\n\t\t\t_ = ext.AddGeometry(f.Geometry())\n\t\t}", "\t\t} else {\n\t\t\text, _ = geom.NewExtentFromGeometry(f.Geometry())\n\t\t}", ["C12", "C13"]),
 ("C13-swapped-flags", "main.go", "KeepPointsAndLines:  c.Bool(KEEPPOINTSANDLINES),\n\t\t\tIgnoreOutsideGrid:   c.Bool(IGNOREOUTSIDEGRID),", "KeepPointsAndLines:  c.Bool(IGNOREOUTSIDEGRID),\n\t\t\tIgnoreOutsideGrid:   c.Bool(KEEPPOINTSANDLINES),", ["C13"]),
 ("C13-overwrite-ignored", "main.go", "\tif overwrite {\n\t\terr := os.Remove(targetPath)", "\tif overwrite && false {\n\t\terr := os.Remove(targetPath)", ["C13"]),
 ("C13-suffix-after-extension", "main.go", "return path.Join(dir, name+\"_%v\"+ext)", "return path.Join(dir, name+ext+\"_%v\")", ["C13"]),
 ("C13-first-table-only", "main.go", "for _, table := range tables {\n\t\t\tlog.Printf(\"  snapping %s\", table.Name)", "for _, table := range tables[:1] {\n\t\t\tlog.Printf(\"  snapping %s\", table.Name)", ["C13"]),
 ("C14-band-widened", "pointindex/pointindex.go", "1.99, 2.01) { // between because of fp error", "1.9, 2.1) { // between because of fp error", ["C14"]),
 ("C14-varw-not-tested", "pointindex/pointindex.go", "if len(tm.VariableMatrixWidths) != 0 {", "if false && len(tm.VariableMatrixWidths) != 0 {", ["C14"]),
 ("C14-origin-pointer-compare", "pointindex/pointindex.go", "if *tm.PointOfOrigin != *previousTM.PointOfOrigin {", "if tm.PointOfOrigin == nil {", ["C14"]),
 ("C14-doubling-not-checked-at-last", "pointindex/pointindex.go", "if tm.MatrixHeight != 2*previousTM.MatrixHeight {", "if tmID != tmIDs[len(tmIDs)-1] && tm.MatrixHeight != 2*previousTM.MatrixHeight {", ["C14"]),
 ("C15-tile-y-bottomleft", "tms20/tms20.go", "topLeftPt[1] = roundFloat(minY+float64(tile.Y+1)*tileSizeY, CoordPrecision)", "topLeftPt[1] = roundFloat(minY+float64(tile.Y)*tileSizeY, CoordPrecision)", ["C15"]),
 ("C15-tilewidth-for-y", "tms20/tms20.go", "\ttileSizeY := float64(tm.TileHeight) * tm.CellSize\n\tvar y float64", "\ttileSizeY := float64(tm.TileWidth) * tm.CellSize * 2\n\tvar y float64", ["C15"]),
 ("C15-range-gt", "tms20/tms20.go", "if ux >= tm.MatrixWidth {", "if ux > tm.MatrixWidth {", ["C15"]),
 ("C15-latlon-swapped", "tms20/tms20.go", "\tcase isLatLon:\n\t\treturn [2]float64{point[1], point[0]}, nil", "\tcase !isLatLon:\n\t\treturn [2]float64{point[1], point[0]}, nil", ["C15", "C03"]),
 ("C16-keywords-dropped", "tms20/tms20.go", "Keywords []string `json:\"keywords,omitempty\"`\n\t// Reference to an official source for this TileMatrixSet", "Keywords []string `json:\"-\"`\n\t// Reference to an official source for this TileMatrixSet", ["C16"]),
 ("C16-uri-crs-always-object", "tms20/tms20.go", "\tif crs.asString {\n\t\treturn json.Marshal(crs.uri)\n\t}", "\tif crs.asString && false {\n\t\treturn json.Marshal(crs.uri)\n\t}", ["C16"]),
 ("C16-no-validation-of-tilematrix", "tms20/tms20.go", "\tvalidate := validator.New(validator.WithRequiredStructEnabled())\n\treturn validate.Struct(tm)", "\treturn nil", ["C16"]),
 ("C17-mask-bit", "morton/morton.go", "0b0000000011111111000000001111111100000000111111110000000011111111,", "0b0000000011111111000000001111111100000000111111110000000011111110,", ["C17", "C02"]),
 ("C17-ok-lt", "morton/morton.go", "ok = x <= math.MaxUint32 && y <= math.MaxUint32", "ok = x <= math.MaxUint32 && y <= math.MaxUint32+1", ["C17"]),
]

def sh(cmd, cwd, timeout=3600, env=ENV):
    r = subprocess.run(cmd, shell=True, cwd=cwd, env=env, capture_output=True, text=True, timeout=timeout)
    return r.returncode, r.stdout + r.stderr

def main():
    want = sys.argv[1:]
    outp = os.path.join(ROOT, "seeded", "own-mutants.json")
    res = json.load(open(outp)) if os.path.exists(outp) else {}
    for name, f, old, new, checks in M:
        if want and not any(name.startswith(w) for w in want):
            continue
        rc, st = sh("git -C /repo status --porcelain", "/")
        if st.strip():
            print("/repo dirty"); sys.exit(2)
        p = os.path.join("/repo", f)
        s = open(p).read()
        if s.count(old) != 1:
            print("%-34s PATTERN matches %d times, skipped" % (name, s.count(old))); continue
        open(p, "w").write(s.replace(old, new))
        try:
            rc, o = sh("gofmt -l . ; go build ./... && go test -count=1 ./... 2>&1 | grep -v 'no test files' | grep -v '^ok'", "/repo")
            suite = "passes" if not o.strip() else "FAILS: " + o.strip().splitlines()[0][:120]
            entry = dict(file=f, old=old, new=new, suite=suite, detection={})
            if suite == "passes":
                for c in checks:
                    t0 = time.time()
                    rc, o = sh("./check %s quick" % c, ROOT)
                    fl = [l for l in o.splitlines() if l.startswith("FAILURE") or l.startswith("REPLAY-FAILED")]
                    entry["detection"][c] = dict(rc=rc, seconds=round(time.time() - t0, 1), first_failure=fl[0][:300] if fl else "")
            res[name] = entry
            print("%-34s suite %s | %s" % (name, suite, ", ".join("%s:%s(%ss)" % (c, "CAUGHT" if d["rc"] == 1 else "missed rc=%d" % d["rc"], d["seconds"]) for c, d in entry["detection"].items())))
        finally:
            sh("git -C /repo checkout -- .", "/")
            shutil.rmtree(os.path.join(ROOT, "replays", "out"), ignore_errors=True)
        json.dump(res, open(outp, "w"), indent=1)

if __name__ == "__main__":
    main()
